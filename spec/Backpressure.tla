---------------------------- MODULE Backpressure ----------------------------
(***************************************************************************)
(* Delivery of inbound messages to local processes over bounded mailboxes  *)
(* (beyond the listed properties; DESIGN §8 item 5).                       *)
(*                                                                         *)
(* One receiver task per connection takes frames off the socket in order   *)
(* and hands each to its target: a local process's mailbox (a bounded      *)
(* channel of capacity Cap) or the waiting RPC caller.  As coded           *)
(* (route_message: `handle.send(..).await`) the receiver WAITS when the    *)
(* target's mailbox is full -- and while it waits nothing else of that     *)
(* connection is delivered: messages for other processes, RPC replies, and *)
(* the peer's ticks are not read either.  The switch Policy names what the *)
(* receiver does with a frame whose target is full:                        *)
(*    "wait"  as coded                                                     *)
(*    "park"  the frame is set aside per target (unbounded per-process     *)
(*            overflow, what the BEAM does) and the receiver goes on       *)
(*    "drop"  the frame is dropped and counted                             *)
(* A process handles messages only while it is not stalled; Stall / Resume *)
(* are environment steps of the slow process.                              *)
(***************************************************************************)
EXTENDS Integers, Sequences, FiniteSets
CONSTANTS Procs, Slow, Cap, Wire, Policy
\* Wire: the frames the peer sent, in order; each [to |-> p] with p \in Procs \cup {"rpc"}
VARIABLES sock, mbox, parked, stalled, delivered, dropped, rpcDone, blockedOn
vars == <<sock, mbox, parked, stalled, delivered, dropped, rpcDone, blockedOn>>
None == "none"
Init == /\ sock = Wire /\ mbox = [p \in Procs |-> 0] /\ parked = [p \in Procs |-> 0]
        /\ stalled = [p \in Procs |-> p \in Slow] /\ delivered = [p \in Procs |-> 0] /\ dropped = 0 /\ rpcDone = 0
        /\ blockedOn = None
Head1 == Head(sock)
\* the receiver takes the next frame
Take == /\ sock # <<>> /\ blockedOn = None
        /\ IF Head1.to = "rpc"
           THEN /\ rpcDone' = rpcDone + 1 /\ sock' = Tail(sock) /\ UNCHANGED <<mbox, parked, dropped, blockedOn>>
           ELSE LET p == Head1.to IN
                IF mbox[p] < Cap
                THEN /\ mbox' = [mbox EXCEPT ![p] = @ + 1] /\ sock' = Tail(sock) /\ UNCHANGED <<parked, dropped, rpcDone, blockedOn>>
                ELSE CASE Policy = "wait" -> /\ blockedOn' = p /\ UNCHANGED <<sock, mbox, parked, dropped, rpcDone>>
                       [] Policy = "park" -> /\ parked' = [parked EXCEPT ![p] = @ + 1] /\ sock' = Tail(sock) /\ UNCHANGED <<mbox, dropped, rpcDone, blockedOn>>
                       [] Policy = "drop" -> /\ dropped' = dropped + 1 /\ sock' = Tail(sock) /\ UNCHANGED <<mbox, parked, rpcDone, blockedOn>>
        /\ UNCHANGED <<stalled, delivered>>
\* the mailbox the receiver waits for has room again: the frame goes in
Unblock == /\ blockedOn # None /\ mbox[blockedOn] < Cap
           /\ mbox' = [mbox EXCEPT ![blockedOn] = @ + 1] /\ sock' = Tail(sock) /\ blockedOn' = None
           /\ UNCHANGED <<parked, stalled, delivered, dropped, rpcDone>>
Handle(p) == /\ ~stalled[p] /\ mbox[p] > 0
             /\ delivered' = [delivered EXCEPT ![p] = @ + 1]
             /\ IF parked[p] > 0 THEN parked' = [parked EXCEPT ![p] = @ - 1] /\ UNCHANGED mbox
                                 ELSE mbox' = [mbox EXCEPT ![p] = @ - 1] /\ UNCHANGED parked
             /\ UNCHANGED <<sock, stalled, dropped, rpcDone, blockedOn>>
Resume(p) == /\ stalled[p] /\ stalled' = [stalled EXCEPT ![p] = FALSE]
             /\ UNCHANGED <<sock, mbox, parked, delivered, dropped, rpcDone, blockedOn>>
Next == Take \/ Unblock \/ (\E p \in Procs : Handle(p)) \/ (\E p \in Slow : Resume(p))
Fair == WF_vars(Take) /\ WF_vars(Unblock) /\ \A p \in Procs : WF_vars(Handle(p))
Spec == Init /\ [][Next]_vars /\ Fair          \* (no fairness on Resume: the slow process may stay stalled for ever)
\* ---- what one would like
Sent(p) == Cardinality({i \in 1..Len(Wire) : Wire[i].to = p})
\* a process that keeps handling gets everything that was sent to it, however the others behave
FastGetsAll == \A p \in Procs \ Slow : <>(delivered[p] = Sent(p))
RpcAnswered == <>(rpcDone = Sent("rpc"))
\* the receiver never sits on a frame while a frame behind it could be delivered at once
NoHeadOfLine == blockedOn # None =>
                  ~\E i \in 2..Len(sock) : sock[i].to = "rpc" \/ (sock[i].to \in Procs /\ sock[i].to # blockedOn /\ mbox[sock[i].to] < Cap)
NothingDropped == dropped = 0
=============================================================================
