SPECIFICATION Spec
CONSTANTS
  Creations = {1, 2}
  MaxSet = 2
  GivesBackOnFailure = FALSE
  CreationRewinds = TRUE
  Threads = {t1, t2}
  MaxId = 3
  SerialMod = 4
  NAlloc = 2
  StartId = 2
  StartSerial = 3
  LockEnforced = TRUE
  RefThreads = {}
  NRef = 0
  StartCtr = 0
INVARIANT UniqueWhileBounded
INVARIANT NoReissue
INVARIANT IssuedIsSequence
INVARIANT CreationInForce
CHECK_DEADLOCK FALSE
