SPECIFICATION Spec
CONSTANTS
  NodeTicks = FALSE
  ReadTimeoutQ = 0
  MaxQ = 8
  AppTraffic = FALSE
INVARIANT StaysUp
CHECK_DEADLOCK FALSE
