---------------------------- MODULE MC_Framing ----------------------------
EXTENDS Framing, Json, IOUtils
B(i, n) == [j \in 1..n |-> ((7 * i) + j) % 256]
\* a message whose content is itself a well-formed frame (a reader that resumes inside it takes the content for a message)
SentNested == << <<0, 0, 0, 1, 9>>, <<7>> >>
Sent4 == << B(1, 2), <<>>, B(2, 1), B(3, 3) >>              \* 4-byte prefixes: wire of 22 bytes
Sent2 == << B(1, 1), <<>>, B(2, 3) >>                         \* 2-byte prefixes: wire of 10 bytes
SentCap == << B(1, 1), B(2, 4), B(3, 1) >>                    \* second message above Cap = 3
SentShort == << B(1, 2), <<>>, B(2, 1) >>                     \* 4-byte prefixes: wire of 15 bytes
\* every finished or stuck behaviour is printed once with its schedule and outcome
Done == ~Running \/ (consumed = Len(Wire) /\ chunk = 0)
Emit == (~Done') \/ PrintT(ToJson([sched |-> sched', outcome |-> [out |-> out', state |-> phase', consumed |-> consumed'],
                                   sent |-> Sent, prefix |-> Prefix, wire |-> Wire]))
=============================================================================
