SPECIFICATION Spec
CONSTANTS
  RecordsInboundLink = TRUE
  RecordsInboundMonitor = TRUE
  SendsExitToRemote = TRUE
  NotifiesOnConnDown = TRUE
CHECK_DEADLOCK FALSE
INVARIANT PeerToldOfExit
INVARIANT PeerToldOfDown
INVARIANT LocalToldOfLoss
INVARIANT LocalMonitorToldOfLoss
