SPECIFICATION Spec
CONSTANTS
  Procs = {"p1", "p2"}
  Names = {"n1"}
  Clients = {"c1", "c2"}
  MaxOps = 5
  NamesSurviveExit = FALSE
  OpKinds = {"spawn", "register", "unregister", "send", "kill", "send_name", "link", "unlink", "monitor", "demonitor"}
  PreSpawn = FALSE
  Sequential = FALSE
CHECK_DEADLOCK FALSE
INVARIANT NameFreedAfterExit
INVARIANT HandledOnceInOrder
INVARIANT NoticeAtMostOnce
VIEW View
