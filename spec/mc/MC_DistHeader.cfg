SPECIFICATION HSpec
CONSTANTS
  FloatTexts <- TblFloatTexts
  Deflated <- TblDeflated
  AtomsInPlay <- MCAtoms
  SlotsInPlay <- MCSlots
  Messages <- MCMessages
  MaxMsgs = 3
INVARIANT Resolved
INVARIANT CachesAgree
CHECK_DEADLOCK FALSE
