SPECIFICATION Spec
CONSTANTS
  Creations = {1}
  MaxSet = 0
  GivesBackOnFailure = FALSE
  CreationRewinds = FALSE
  Threads = {t1, t2}
  MaxId = 3
  SerialMod = 4
  NAlloc = 2
  StartId = 1
  StartSerial = 0
  LockEnforced = FALSE
  RefThreads = {}
  NRef = 0
  StartCtr = 0
INVARIANT UniqueWhileBounded
INVARIANT CreationInForce
INVARIANT RefUnique
INVARIANT SerialAdvancesOnWrap
CHECK_DEADLOCK FALSE
