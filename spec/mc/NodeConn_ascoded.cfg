SPECIFICATION Spec
CONSTANTS
  Callers = {"c1", "c2"}
  MaxConns = 3
  MaxAttempts = 2
  RemoveByIdentity = FALSE
  SingleFlight = FALSE
  PeerRejectsDuplicates = FALSE
INVARIANT NoLiveOrphan
INVARIANT NoDeadEntry
CHECK_DEADLOCK FALSE
