SPECIFICATION Spec
CONSTANTS
  NodeTicks = FALSE
  ReadTimeoutQ = 5
  MaxQ = 8
  AppTraffic = TRUE
INVARIANT StaysUp
CHECK_DEADLOCK FALSE
