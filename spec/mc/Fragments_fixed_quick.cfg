SPECIFICATION Spec
CONSTANTS
  SeqIds = {1, 2}
  MaxN = 3
  MaxOps = 7
  ExpireMode = "all"
  AscendingConcat = FALSE
  DupCheck = TRUE
  RangeCheck = TRUE
  RemoveOnComplete = TRUE
CHECK_DEADLOCK FALSE
INVARIANT Refines
INVARIANT HeldOnlyIncomplete
INVARIANT CountMatchesSlots
PROPERTY Isolation
