------------------------------- MODULE MC_Rpc -------------------------------
EXTENDS Rpc, Json
\* every quiescent end of a behaviour, with the schedule that led to it and what each caller got
AllDone == (\A c \in Callers : pc[c] = "returned") /\ inbox = <<>>
Emit == (~AllDone') \/ PrintT(ToJson([hist |-> hist', conn |-> conn', results |-> [c \in Callers |-> result'[c]], rids |-> [c \in Callers |-> rid'[c]],
                                      table |-> table', callers |-> Cardinality(Callers)]))
=============================================================================
