------------------------------- MODULE MC_Rpc -------------------------------
EXTENDS Rpc, Json
\* every quiescent end of a behaviour, with the schedule that led to it and what each caller got
AllDone == (\A c \in Callers : pc[c] = "returned") /\ inbox = <<>>
Emit == (~AllDone') \/ PrintT(ToJson([hist |-> hist', conn |-> conn', results |-> [c \in Callers |-> result'[c]], rids |-> [c \in Callers |-> rid'[c]],
                                      table |-> table', callers |-> Cardinality(Callers)]))
\* a directed family of behaviours (Gen_Rpc_ghost4): caller 1 calls a node there is no connection to and is slow about it -- it is allocated
\* first, but fails only after caller 2 has been allocated and sent; callers 3 and 4 start after that failure; caller 2 is answered last
Pos(e) == LET is == {i \in 1..Len(hist) : hist[i] = e} IN IF is = {} THEN 0 ELSE CHOOSE i \in is : \A j \in is : i <= j
GhostDirected == /\ (Pos(<<"alloc", 2>>) > 0 => Pos(<<"alloc", 1>>) > 0)
                 /\ (Pos(<<"insert", 1>>) > 0 => Pos(<<"send", 2>>) > 0)
                 /\ \A c \in {3, 4} : Pos(<<"alloc", c>>) > 0 => Pos(<<"send", 1>>) > 0
                 /\ \A i \in 1..Len(hist) : hist[i][1] = "reply" => (hist[i][2] = 2 /\ Pos(<<"insert", 3>>) > 0 /\ Pos(<<"insert", 4>>) > 0 /\ Pos(<<"insert", 3>>) < i /\ Pos(<<"insert", 4>>) < i)
=============================================================================
