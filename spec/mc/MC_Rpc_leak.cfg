SPECIFICATION Spec
CONSTANTS
  Callers = {1, 2}
  ConnStates = {"broken"}
  MaxReplies = 1
  LeakOnSendError = TRUE
  MatchCreation = TRUE
  OtherPeer = FALSE
  ClearOnAnyDisconnect = FALSE
  SeqCallers = FALSE
  GhostCallers = {}
  PeerMayClose = FALSE
  LeakIfGoneAtTimeout = FALSE
  RemoveOnTimeout = TRUE
CHECK_DEADLOCK FALSE
INVARIANT NothingLeft
VIEW View
