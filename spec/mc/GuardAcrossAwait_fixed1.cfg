SPECIFICATION Spec
CONSTANTS
  Workers = 1
  HoldAcrossAwait = FALSE
INVARIANT NeverWedged
PROPERTY SendCompletes
CHECK_DEADLOCK FALSE
