SPECIFICATION Spec
CONSTANTS
  Workers = 1
  HoldAcrossAwait = TRUE
INVARIANT NeverWedged
PROPERTY SendCompletes
CHECK_DEADLOCK FALSE
