SPECIFICATION Spec
CONSTANTS
  Sent <- SentNested
  Prefix = 4
  Cap = 100
  MaxGiveUps = 1
  ResumeAfterTimeout = TRUE
  EofYieldsShort = FALSE
  MaxPend = 2
INVARIANT OutIsPrefixOfSent
INVARIANT AllDeliveredWhenConsumed
INVARIANT NoShortMessage
INVARIANT OverCapRefused
CHECK_DEADLOCK FALSE
VIEW View
