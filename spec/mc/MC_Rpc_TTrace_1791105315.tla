---- MODULE MC_Rpc_TTrace_1791105315 ----
EXTENDS Sequences, TLCExt, Toolbox, Naturals, TLC, MC_Rpc

_expression ==
    LET MC_Rpc_TEExpression == INSTANCE MC_Rpc_TEExpression
    IN MC_Rpc_TEExpression!expression
----

_trace ==
    LET MC_Rpc_TETrace == INSTANCE MC_Rpc_TETrace
    IN MC_Rpc_TETrace!trace
----

_inv ==
    ~(
        TLCGet("level") = Len(_TETrace)
        /\
        result = (<<[r |-> 0, k |-> "timeout"], [r |-> 0, k |-> "not_connected"]>>)
        /\
        wire = ({1})
        /\
        conn = ("absent")
        /\
        hist = (<<<<"start", 3>>, <<"alloc", 1>>, <<"insert", 1>>, <<"send", 1>>, <<"deregister", 0>>, <<"timeout", 1>>, <<"cleanup", 1>>, <<"alloc", 2>>, <<"insert", 2>>, <<"send", 2>>>>)
        /\
        pc = (<<"returned", "returned">>)
        /\
        otherUp = (FALSE)
        /\
        replies = (0)
        /\
        delivered = (<<0, 0>>)
        /\
        rid = (<<1, 2>>)
        /\
        nextRid = (3)
        /\
        inbox = (<<>>)
        /\
        table = ({1})
    )
----

_init ==
    /\ wire = _TETrace[1].wire
    /\ delivered = _TETrace[1].delivered
    /\ conn = _TETrace[1].conn
    /\ otherUp = _TETrace[1].otherUp
    /\ pc = _TETrace[1].pc
    /\ hist = _TETrace[1].hist
    /\ table = _TETrace[1].table
    /\ nextRid = _TETrace[1].nextRid
    /\ replies = _TETrace[1].replies
    /\ result = _TETrace[1].result
    /\ rid = _TETrace[1].rid
    /\ inbox = _TETrace[1].inbox
----

_next ==
    /\ \E i,j \in DOMAIN _TETrace:
        /\ \/ /\ j = i + 1
              /\ i = TLCGet("level")
        /\ wire  = _TETrace[i].wire
        /\ wire' = _TETrace[j].wire
        /\ delivered  = _TETrace[i].delivered
        /\ delivered' = _TETrace[j].delivered
        /\ conn  = _TETrace[i].conn
        /\ conn' = _TETrace[j].conn
        /\ otherUp  = _TETrace[i].otherUp
        /\ otherUp' = _TETrace[j].otherUp
        /\ pc  = _TETrace[i].pc
        /\ pc' = _TETrace[j].pc
        /\ hist  = _TETrace[i].hist
        /\ hist' = _TETrace[j].hist
        /\ table  = _TETrace[i].table
        /\ table' = _TETrace[j].table
        /\ nextRid  = _TETrace[i].nextRid
        /\ nextRid' = _TETrace[j].nextRid
        /\ replies  = _TETrace[i].replies
        /\ replies' = _TETrace[j].replies
        /\ result  = _TETrace[i].result
        /\ result' = _TETrace[j].result
        /\ rid  = _TETrace[i].rid
        /\ rid' = _TETrace[j].rid
        /\ inbox  = _TETrace[i].inbox
        /\ inbox' = _TETrace[j].inbox

\* Uncomment the ASSUME below to write the states of the error trace
\* to the given file in Json format. Note that you can pass any tuple
\* to `JsonSerialize`. For example, a sub-sequence of _TETrace.
    \* ASSUME
    \*     LET J == INSTANCE Json
    \*         IN J!JsonSerialize("MC_Rpc_TTrace_1791105315.json", _TETrace)

=============================================================================

 Note that you can extract this module `MC_Rpc_TEExpression`
  to a dedicated file to reuse `expression` (the module in the 
  dedicated `MC_Rpc_TEExpression.tla` file takes precedence 
  over the module `MC_Rpc_TEExpression` below).

---- MODULE MC_Rpc_TEExpression ----
EXTENDS Sequences, TLCExt, Toolbox, Naturals, TLC, MC_Rpc

expression == 
    [
        \* To hide variables of the `MC_Rpc` spec from the error trace,
        \* remove the variables below.  The trace will be written in the order
        \* of the fields of this record.
        wire |-> wire
        ,delivered |-> delivered
        ,conn |-> conn
        ,otherUp |-> otherUp
        ,pc |-> pc
        ,hist |-> hist
        ,table |-> table
        ,nextRid |-> nextRid
        ,replies |-> replies
        ,result |-> result
        ,rid |-> rid
        ,inbox |-> inbox
        
        \* Put additional constant-, state-, and action-level expressions here:
        \* ,_stateNumber |-> _TEPosition
        \* ,_wireUnchanged |-> wire = wire'
        
        \* Format the `wire` variable as Json value.
        \* ,_wireJson |->
        \*     LET J == INSTANCE Json
        \*     IN J!ToJson(wire)
        
        \* Lastly, you may build expressions over arbitrary sets of states by
        \* leveraging the _TETrace operator.  For example, this is how to
        \* count the number of times a spec variable changed up to the current
        \* state in the trace.
        \* ,_wireModCount |->
        \*     LET F[s \in DOMAIN _TETrace] ==
        \*         IF s = 1 THEN 0
        \*         ELSE IF _TETrace[s].wire # _TETrace[s-1].wire
        \*             THEN 1 + F[s-1] ELSE F[s-1]
        \*     IN F[_TEPosition - 1]
    ]

=============================================================================



Parsing and semantic processing can take forever if the trace below is long.
 In this case, it is advised to uncomment the module below to deserialize the
 trace from a generated binary file.

\*
\*---- MODULE MC_Rpc_TETrace ----
\*EXTENDS IOUtils, TLC, MC_Rpc
\*
\*trace == IODeserialize("MC_Rpc_TTrace_1791105315.bin", TRUE)
\*
\*=============================================================================
\*

---- MODULE MC_Rpc_TETrace ----
EXTENDS TLC, MC_Rpc

trace == 
    <<
    ([result |-> <<[r |-> 0, k |-> "none"], [r |-> 0, k |-> "none"]>>,wire |-> {},conn |-> "closing",hist |-> <<<<"start", 3>>>>,pc |-> <<"idle", "idle">>,otherUp |-> FALSE,replies |-> 0,delivered |-> <<0, 0>>,rid |-> <<0, 0>>,nextRid |-> 1,inbox |-> <<>>,table |-> {}]),
    ([result |-> <<[r |-> 0, k |-> "none"], [r |-> 0, k |-> "none"]>>,wire |-> {},conn |-> "closing",hist |-> <<<<"start", 3>>, <<"alloc", 1>>>>,pc |-> <<"allocated", "idle">>,otherUp |-> FALSE,replies |-> 0,delivered |-> <<0, 0>>,rid |-> <<1, 0>>,nextRid |-> 2,inbox |-> <<>>,table |-> {}]),
    ([result |-> <<[r |-> 0, k |-> "none"], [r |-> 0, k |-> "none"]>>,wire |-> {},conn |-> "closing",hist |-> <<<<"start", 3>>, <<"alloc", 1>>, <<"insert", 1>>>>,pc |-> <<"inserted", "idle">>,otherUp |-> FALSE,replies |-> 0,delivered |-> <<0, 0>>,rid |-> <<1, 0>>,nextRid |-> 2,inbox |-> <<>>,table |-> {1}]),
    ([result |-> <<[r |-> 0, k |-> "none"], [r |-> 0, k |-> "none"]>>,wire |-> {1},conn |-> "closing",hist |-> <<<<"start", 3>>, <<"alloc", 1>>, <<"insert", 1>>, <<"send", 1>>>>,pc |-> <<"awaiting", "idle">>,otherUp |-> FALSE,replies |-> 0,delivered |-> <<0, 0>>,rid |-> <<1, 0>>,nextRid |-> 2,inbox |-> <<>>,table |-> {1}]),
    ([result |-> <<[r |-> 0, k |-> "none"], [r |-> 0, k |-> "none"]>>,wire |-> {1},conn |-> "absent",hist |-> <<<<"start", 3>>, <<"alloc", 1>>, <<"insert", 1>>, <<"send", 1>>, <<"deregister", 0>>>>,pc |-> <<"awaiting", "idle">>,otherUp |-> FALSE,replies |-> 0,delivered |-> <<0, 0>>,rid |-> <<1, 0>>,nextRid |-> 2,inbox |-> <<>>,table |-> {1}]),
    ([result |-> <<[r |-> 0, k |-> "none"], [r |-> 0, k |-> "none"]>>,wire |-> {1},conn |-> "absent",hist |-> <<<<"start", 3>>, <<"alloc", 1>>, <<"insert", 1>>, <<"send", 1>>, <<"deregister", 0>>, <<"timeout", 1>>>>,pc |-> <<"timedout", "idle">>,otherUp |-> FALSE,replies |-> 0,delivered |-> <<0, 0>>,rid |-> <<1, 0>>,nextRid |-> 2,inbox |-> <<>>,table |-> {1}]),
    ([result |-> <<[r |-> 0, k |-> "timeout"], [r |-> 0, k |-> "none"]>>,wire |-> {1},conn |-> "absent",hist |-> <<<<"start", 3>>, <<"alloc", 1>>, <<"insert", 1>>, <<"send", 1>>, <<"deregister", 0>>, <<"timeout", 1>>, <<"cleanup", 1>>>>,pc |-> <<"returned", "idle">>,otherUp |-> FALSE,replies |-> 0,delivered |-> <<0, 0>>,rid |-> <<1, 0>>,nextRid |-> 2,inbox |-> <<>>,table |-> {1}]),
    ([result |-> <<[r |-> 0, k |-> "timeout"], [r |-> 0, k |-> "none"]>>,wire |-> {1},conn |-> "absent",hist |-> <<<<"start", 3>>, <<"alloc", 1>>, <<"insert", 1>>, <<"send", 1>>, <<"deregister", 0>>, <<"timeout", 1>>, <<"cleanup", 1>>, <<"alloc", 2>>>>,pc |-> <<"returned", "allocated">>,otherUp |-> FALSE,replies |-> 0,delivered |-> <<0, 0>>,rid |-> <<1, 2>>,nextRid |-> 3,inbox |-> <<>>,table |-> {1}]),
    ([result |-> <<[r |-> 0, k |-> "timeout"], [r |-> 0, k |-> "none"]>>,wire |-> {1},conn |-> "absent",hist |-> <<<<"start", 3>>, <<"alloc", 1>>, <<"insert", 1>>, <<"send", 1>>, <<"deregister", 0>>, <<"timeout", 1>>, <<"cleanup", 1>>, <<"alloc", 2>>, <<"insert", 2>>>>,pc |-> <<"returned", "inserted">>,otherUp |-> FALSE,replies |-> 0,delivered |-> <<0, 0>>,rid |-> <<1, 2>>,nextRid |-> 3,inbox |-> <<>>,table |-> {1, 2}]),
    ([result |-> <<[r |-> 0, k |-> "timeout"], [r |-> 0, k |-> "not_connected"]>>,wire |-> {1},conn |-> "absent",hist |-> <<<<"start", 3>>, <<"alloc", 1>>, <<"insert", 1>>, <<"send", 1>>, <<"deregister", 0>>, <<"timeout", 1>>, <<"cleanup", 1>>, <<"alloc", 2>>, <<"insert", 2>>, <<"send", 2>>>>,pc |-> <<"returned", "returned">>,otherUp |-> FALSE,replies |-> 0,delivered |-> <<0, 0>>,rid |-> <<1, 2>>,nextRid |-> 3,inbox |-> <<>>,table |-> {1}])
    >>
----


=============================================================================

---- CONFIG MC_Rpc_TTrace_1791105315 ----
CONSTANTS
    Callers = { 1 , 2 }
    ConnStates = { "up" , "absent" , "broken" , "closing" }
    MaxReplies = 3
    LeakOnSendError = FALSE
    MatchCreation = TRUE
    OtherPeer = FALSE
    ClearOnAnyDisconnect = FALSE
    SeqCallers = FALSE
    PeerMayClose = TRUE
    LeakIfGoneAtTimeout = TRUE
    RemoveOnTimeout = TRUE

INVARIANT
    _inv

CHECK_DEADLOCK
    \* CHECK_DEADLOCK off because of PROPERTY or INVARIANT above.
    FALSE

INIT
    _init

NEXT
    _next

CONSTANT
    _TETrace <- _trace

ALIAS
    _expression
=============================================================================
\* Generated on Sun Oct 04 09:15:16 UTC 2026