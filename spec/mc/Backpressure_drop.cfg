SPECIFICATION Spec
CONSTANTS
  Procs = {"s", "f"}
  Slow = {"s"}
  Cap = 2
  Wire <- WireDef
  Policy = "drop"
CHECK_DEADLOCK FALSE
INVARIANT NoHeadOfLine
PROPERTY FastGetsAll
PROPERTY RpcAnswered
