SPECIFICATION Spec
CONSTANTS
  Creations = {1}
  MaxSet = 0
  GivesBackOnFailure = FALSE
  CreationRewinds = FALSE
  Threads = {}
  MaxId = 3
  SerialMod = 4
  NAlloc = 0
  StartId = 1
  StartSerial = 0
  LockEnforced = TRUE
  RefThreads = {t1, t2}
  NRef = 2
  StartCtr = 0
INVARIANT UniqueWhileBounded
INVARIANT NoReissue
INVARIANT CreationInForce
INVARIANT RefUnique
INVARIANT RefWordsAreCounter
INVARIANT SerialAdvancesOnWrap
CHECK_DEADLOCK FALSE
