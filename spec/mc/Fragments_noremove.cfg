SPECIFICATION Spec
CONSTANTS
  SeqIds = {1, 2}
  MaxN = 3
  MaxOps = 6
  ExpireMode = "all"
  AscendingConcat = FALSE
  DupCheck = TRUE
  RangeCheck = TRUE
  RemoveOnComplete = FALSE
CHECK_DEADLOCK FALSE
INVARIANT Refines
INVARIANT HeldOnlyIncomplete
