SPECIFICATION Spec
CONSTANTS
  Creations = {1}
  MaxSet = 0
  GivesBackOnFailure = FALSE
  CreationRewinds = FALSE
  Threads = {t1, t2}
  MaxId = 3
  SerialMod = 4
  NAlloc = 2
  StartId = 2
  StartSerial = 3
  LockEnforced = TRUE
  RefThreads = {t1, t2}
  NRef = 1
  StartCtr = 0
INVARIANT UniqueWhileBounded
INVARIANT NoReissue
INVARIANT IssuedIsSequence
INVARIANT CreationInForce
INVARIANT RefUnique
INVARIANT SerialAdvancesOnWrap
CHECK_DEADLOCK FALSE
