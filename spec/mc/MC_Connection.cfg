SPECIFICATION Spec
CONSTANTS
  Tasks = {1, 2, 3}
  NOps = 2
  PartsOf <- MCParts
  FrameLockHeld = TRUE
  WritesWhole = TRUE
  Connected = TRUE
INVARIANT FramesIntact
INVARIANT OrderPerTask
INVARIANT NoWriteBeforeConnected
VIEW View
CHECK_DEADLOCK FALSE
