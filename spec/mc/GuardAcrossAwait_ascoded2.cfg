SPECIFICATION Spec
CONSTANTS
  Workers = 2
  HoldAcrossAwait = TRUE
INVARIANT NeverWedged
PROPERTY SendCompletes
CHECK_DEADLOCK FALSE
