SPECIFICATION ASpec
CONSTANTS
  MaxCalls = 7
  ClearOnDisconnect = TRUE
CHECK_DEADLOCK FALSE
INVARIANT ProofBeforeConnected
INVARIANT ProofIsFresh
INVARIANT NegotiatedOnlyAfterChallenge
VIEW AView
