SPECIFICATION Spec
CONSTANTS
  Callers = {1, 2}
  ConnStates = {"up", "absent", "broken", "closing"}
  MaxReplies = 3
  LeakOnSendError = FALSE
  MatchCreation = TRUE
  OtherPeer = FALSE
  ClearOnAnyDisconnect = FALSE
  SeqCallers = FALSE
  GhostCallers = {}
  PeerMayClose = TRUE
  LeakIfGoneAtTimeout = FALSE
  RemoveOnTimeout = TRUE
CHECK_DEADLOCK FALSE
INVARIANT OwnReplyOnly
INVARIANT AtMostOnce
INVARIANT NothingLeft
VIEW View
