SPECIFICATION Spec
CONSTANTS
  SeqIds = {1, 2}
  MaxN = 3
  MaxOps = 6
  ExpireMode = "all"
  AscendingConcat = FALSE
  DupCheck = TRUE
  RangeCheck = FALSE
  RemoveOnComplete = TRUE
CHECK_DEADLOCK FALSE
INVARIANT Refines
