SPECIFICATION Spec
CONSTANTS
  Procs = {"s", "f"}
  Slow = {"s"}
  Cap = 2
  Wire <- WireDef
  Policy = "wait"
CHECK_DEADLOCK FALSE
PROPERTY FastGetsAll
