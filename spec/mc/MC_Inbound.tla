----------------------------- MODULE MC_Inbound -----------------------------
EXTENDS Inbound, Json
Done == n = MaxFrames \/ ~alive
Emit == (~Done') \/ PrintT(ToJson([hist |-> hist', alive |-> alive', registered |-> registered', delivered |-> delivered', callGot |-> callGot', live |-> live']))
=============================================================================
