---- MODULE MC_Connection ----
EXTENDS Connection
MCParts == <<4, 3>>     \* a frame with payload leaves in four writes, one without in three
====
