SPECIFICATION Spec
CONSTANTS
  Nodes = {"a", "b"}
  KeepsLease = TRUE
INVARIANT RunningIsFindable
INVARIANT DownIsForgotten
CONSTRAINT Bound
CHECK_DEADLOCK FALSE
