SPECIFICATION Spec
CONSTANTS
  Nodes = {"a"}
  KeepsLease = FALSE
INVARIANT RunningIsFindable
CONSTRAINT Bound
CHECK_DEADLOCK FALSE
