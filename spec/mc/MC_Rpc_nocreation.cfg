SPECIFICATION Spec
CONSTANTS
  Callers = {1, 2}
  ConnStates = {"up"}
  MaxReplies = 3
  LeakOnSendError = FALSE
  MatchCreation = FALSE
  OtherPeer = FALSE
  ClearOnAnyDisconnect = FALSE
  SeqCallers = FALSE
  GhostCallers = {}
  PeerMayClose = FALSE
  LeakIfGoneAtTimeout = FALSE
  RemoveOnTimeout = TRUE
CHECK_DEADLOCK FALSE
INVARIANT OwnReplyOnly
INVARIANT AtMostOnce
INVARIANT NothingLeft
VIEW View
