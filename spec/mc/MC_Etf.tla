------------------------------- MODULE MC_Etf -------------------------------
(* Self-consistency of the reference model: the parser inverts the canonical encoder and    *)
(* every alternative encoding on the whole universe.  Guards the spec against being the     *)
(* source of a false alarm (a slip that is not symmetric between encoder and parser shows). *)
EXTENDS EtfUniverse, EtfTables, IOUtils
UU == IF IOEnv.UNIVERSE = "D1" THEN D1 ELSE D2
RoundTrip(v) == LET d == Decode(Encode(v)) IN d[1] /\ d[2] = v
AltsOk(v) == \A a \in AltsDeep(v) : LET d == Decode(<<131>> \o a[2]) IN d[1] /\ d[2] = v
CompOk(v) == \A a \in CompressedAlts(v) : LET d == Decode(a[2]) IN d[1] /\ d[2] = v
TrailingRejected(v) == ~Decode(Encode(v) \o <<0>>)[1]
TruncRejected(v) == LET e == Encode(v) IN \A n \in {Len(e) - 1, Len(e) \div 2, 1} : ~Decode(Take(e, n))[1]
ASSUME PrintT(<<"universe", Cardinality(UU)>>)
ASSUME \A v \in UU : RoundTrip(v) \/ PrintT(<<"ROUNDTRIP FAIL", v>>)
ASSUME \A v \in UU : AltsOk(v) \/ PrintT(<<"ALT FAIL", v>>)
ASSUME \A v \in UU : CompOk(v) \/ PrintT(<<"COMPRESSED FAIL", v>>)
ASSUME \A v \in UU : TrailingRejected(v) \/ PrintT(<<"TRAILING ACCEPTED", v>>)
ASSUME \A v \in D1 : TruncRejected(v) \/ PrintT(<<"TRUNCATION ACCEPTED", v>>)
ASSUME PrintT(<<"alts", Cardinality(UNION {AltsDeep(v) : v \in UU}), "compressed", Cardinality(UNION {CompressedAlts(v) : v \in UU})>>)
VARIABLE x
Init == x = 0
Next == UNCHANGED x
=============================================================================
