--------------------------- MODULE MC_DistHeader ---------------------------
EXTENDS DistHeader, EtfTables
A1 == <<97>>
A2 == <<98>>
A3 == <<99, 195, 169>>
A4 == <<100, 100>>
MCAtoms == {A1, A2, A3, A4}
MCSlots == {<<0, 1>>, <<1, 1>>, <<7, 255>>}
P == VPid(VAtom(A1), <<0,0,0,1>>, <<0,0,0,2>>, <<0,0,0,3>>, <<>>)
MCMessages == { <<VTuple(<<SmallInt(1), VAtom(A1)>>)>>,
                <<VTuple(<<SmallInt(2), VAtom(A2), P>>), VAtom(A1)>>,
                <<VTuple(<<SmallInt(6), P, VAtom(A3), VAtom(A2)>>), VList(<<VAtom(A3), VAtom(A4)>>, VNil)>>,
                <<VTuple(<<SmallInt(3), VAtom(A4), VAtom(A4)>>)>>,
                <<VTuple(<<SmallInt(5)>>)>>,
                \* atoms wherever a term can hold one: module and function of an export, module of a fun (and its creator's node), map key and
                \* value, node of a port and of a reference
                <<VTuple(<<SmallInt(2), VAtom(A2), P>>),
                  VTuple(<<VExport(VAtom(A1), VAtom(A3), 2), VFun(1, [i \in 1..16 |-> i], <<0,0,0,1>>, VAtom(A4), SmallInt(1), SmallInt(2), P, <<VAtom(A2)>>),
                           VMap(<< <<VAtom(A1), VAtom(A4)>> >>), VPort(VAtom(A3), <<0,0,0,0,0,0,0,5>>, <<0,0,0,1>>, <<>>), VRef(VAtom(A2), <<0,0,0,1>>, <<<<0,0,0,7>>>>, <<>>)>>)>> }
=============================================================================
