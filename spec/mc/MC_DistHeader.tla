--------------------------- MODULE MC_DistHeader ---------------------------
EXTENDS DistHeader, EtfTables
A1 == <<97>>
A2 == <<98>>
A3 == <<99, 195, 169>>
A4 == <<100, 100>>
MCAtoms == {A1, A2, A3, A4}
MCSlots == {<<0, 1>>, <<1, 1>>, <<7, 255>>}
P == VPid(VAtom(A1), <<0,0,0,1>>, <<0,0,0,2>>, <<0,0,0,3>>, <<>>)
MCMessages == { <<VTuple(<<SmallInt(1), VAtom(A1)>>)>>,
                <<VTuple(<<SmallInt(2), VAtom(A2), P>>), VAtom(A1)>>,
                <<VTuple(<<SmallInt(6), P, VAtom(A3), VAtom(A2)>>), VList(<<VAtom(A3), VAtom(A4)>>, VNil)>>,
                <<VTuple(<<SmallInt(3), VAtom(A4), VAtom(A4)>>)>>,
                <<VTuple(<<SmallInt(5)>>)>> }
=============================================================================
