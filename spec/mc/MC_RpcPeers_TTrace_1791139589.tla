---- MODULE MC_RpcPeers_TTrace_1791139589 ----
EXTENDS Sequences, TLCExt, Toolbox, Naturals, TLC, MC_RpcPeers

_expression ==
    LET MC_RpcPeers_TEExpression == INSTANCE MC_RpcPeers_TEExpression
    IN MC_RpcPeers_TEExpression!expression
----

_trace ==
    LET MC_RpcPeers_TETrace == INSTANCE MC_RpcPeers_TETrace
    IN MC_RpcPeers_TETrace!trace
----

_inv ==
    ~(
        TLCGet("level") = Len(_TETrace)
        /\
        result = (<<<<>>, <<"A", 1>>, <<>>, <<>>>>)
        /\
        wire = ({})
        /\
        pc = (<<"awaiting", "inserted", "idle", "idle">>)
        /\
        counter = ([A |-> 1, B |-> 1, node |-> 0])
        /\
        id = (<<1, 1, 0, 0>>)
        /\
        inbox = (<<>>)
        /\
        table = (<<>>)
    )
----

_init ==
    /\ result = _TETrace[1].result
    /\ counter = _TETrace[1].counter
    /\ wire = _TETrace[1].wire
    /\ table = _TETrace[1].table
    /\ id = _TETrace[1].id
    /\ inbox = _TETrace[1].inbox
    /\ pc = _TETrace[1].pc
----

_next ==
    /\ \E i,j \in DOMAIN _TETrace:
        /\ \/ /\ j = i + 1
              /\ i = TLCGet("level")
        /\ result  = _TETrace[i].result
        /\ result' = _TETrace[j].result
        /\ counter  = _TETrace[i].counter
        /\ counter' = _TETrace[j].counter
        /\ wire  = _TETrace[i].wire
        /\ wire' = _TETrace[j].wire
        /\ table  = _TETrace[i].table
        /\ table' = _TETrace[j].table
        /\ id  = _TETrace[i].id
        /\ id' = _TETrace[j].id
        /\ inbox  = _TETrace[i].inbox
        /\ inbox' = _TETrace[j].inbox
        /\ pc  = _TETrace[i].pc
        /\ pc' = _TETrace[j].pc

\* Uncomment the ASSUME below to write the states of the error trace
\* to the given file in Json format. Note that you can pass any tuple
\* to `JsonSerialize`. For example, a sub-sequence of _TETrace.
    \* ASSUME
    \*     LET J == INSTANCE Json
    \*         IN J!JsonSerialize("MC_RpcPeers_TTrace_1791139589.json", _TETrace)

=============================================================================

 Note that you can extract this module `MC_RpcPeers_TEExpression`
  to a dedicated file to reuse `expression` (the module in the 
  dedicated `MC_RpcPeers_TEExpression.tla` file takes precedence 
  over the module `MC_RpcPeers_TEExpression` below).

---- MODULE MC_RpcPeers_TEExpression ----
EXTENDS Sequences, TLCExt, Toolbox, Naturals, TLC, MC_RpcPeers

expression == 
    [
        \* To hide variables of the `MC_RpcPeers` spec from the error trace,
        \* remove the variables below.  The trace will be written in the order
        \* of the fields of this record.
        result |-> result
        ,counter |-> counter
        ,wire |-> wire
        ,table |-> table
        ,id |-> id
        ,inbox |-> inbox
        ,pc |-> pc
        
        \* Put additional constant-, state-, and action-level expressions here:
        \* ,_stateNumber |-> _TEPosition
        \* ,_resultUnchanged |-> result = result'
        
        \* Format the `result` variable as Json value.
        \* ,_resultJson |->
        \*     LET J == INSTANCE Json
        \*     IN J!ToJson(result)
        
        \* Lastly, you may build expressions over arbitrary sets of states by
        \* leveraging the _TETrace operator.  For example, this is how to
        \* count the number of times a spec variable changed up to the current
        \* state in the trace.
        \* ,_resultModCount |->
        \*     LET F[s \in DOMAIN _TETrace] ==
        \*         IF s = 1 THEN 0
        \*         ELSE IF _TETrace[s].result # _TETrace[s-1].result
        \*             THEN 1 + F[s-1] ELSE F[s-1]
        \*     IN F[_TEPosition - 1]
    ]

=============================================================================



Parsing and semantic processing can take forever if the trace below is long.
 In this case, it is advised to uncomment the module below to deserialize the
 trace from a generated binary file.

\*
\*---- MODULE MC_RpcPeers_TETrace ----
\*EXTENDS IOUtils, TLC, MC_RpcPeers
\*
\*trace == IODeserialize("MC_RpcPeers_TTrace_1791139589.bin", TRUE)
\*
\*=============================================================================
\*

---- MODULE MC_RpcPeers_TETrace ----
EXTENDS TLC, MC_RpcPeers

trace == 
    <<
    ([result |-> <<<<>>, <<>>, <<>>, <<>>>>,wire |-> {},pc |-> <<"idle", "idle", "idle", "idle">>,counter |-> [A |-> 0, B |-> 0, node |-> 0],id |-> <<0, 0, 0, 0>>,inbox |-> <<>>,table |-> <<>>]),
    ([result |-> <<<<>>, <<>>, <<>>, <<>>>>,wire |-> {},pc |-> <<"allocated", "idle", "idle", "idle">>,counter |-> [A |-> 1, B |-> 0, node |-> 0],id |-> <<1, 0, 0, 0>>,inbox |-> <<>>,table |-> <<>>]),
    ([result |-> <<<<>>, <<>>, <<>>, <<>>>>,wire |-> {},pc |-> <<"inserted", "idle", "idle", "idle">>,counter |-> [A |-> 1, B |-> 0, node |-> 0],id |-> <<1, 0, 0, 0>>,inbox |-> <<>>,table |-> <<1>>]),
    ([result |-> <<<<>>, <<>>, <<>>, <<>>>>,wire |-> {<<"A", 1, 1>>},pc |-> <<"awaiting", "idle", "idle", "idle">>,counter |-> [A |-> 1, B |-> 0, node |-> 0],id |-> <<1, 0, 0, 0>>,inbox |-> <<>>,table |-> <<1>>]),
    ([result |-> <<<<>>, <<>>, <<>>, <<>>>>,wire |-> {<<"A", 1, 1>>},pc |-> <<"awaiting", "allocated", "idle", "idle">>,counter |-> [A |-> 1, B |-> 1, node |-> 0],id |-> <<1, 1, 0, 0>>,inbox |-> <<>>,table |-> <<1>>]),
    ([result |-> <<<<>>, <<>>, <<>>, <<>>>>,wire |-> {<<"A", 1, 1>>},pc |-> <<"awaiting", "inserted", "idle", "idle">>,counter |-> [A |-> 1, B |-> 1, node |-> 0],id |-> <<1, 1, 0, 0>>,inbox |-> <<>>,table |-> <<2>>]),
    ([result |-> <<<<>>, <<>>, <<>>, <<>>>>,wire |-> {},pc |-> <<"awaiting", "inserted", "idle", "idle">>,counter |-> [A |-> 1, B |-> 1, node |-> 0],id |-> <<1, 1, 0, 0>>,inbox |-> <<<<"A", 1, 1>>>>,table |-> <<2>>]),
    ([result |-> <<<<>>, <<"A", 1>>, <<>>, <<>>>>,wire |-> {},pc |-> <<"awaiting", "inserted", "idle", "idle">>,counter |-> [A |-> 1, B |-> 1, node |-> 0],id |-> <<1, 1, 0, 0>>,inbox |-> <<>>,table |-> <<>>])
    >>
----


=============================================================================

---- CONFIG MC_RpcPeers_TTrace_1791139589 ----
CONSTANTS
    Callers = { 1 , 2 , 3 , 4 }
    Peers = { "A" , "B" }
    Target <- TargetDef
    IdsPerPeer = TRUE

INVARIANT
    _inv

CHECK_DEADLOCK
    \* CHECK_DEADLOCK off because of PROPERTY or INVARIANT above.
    FALSE

INIT
    _init

NEXT
    _next

CONSTANT
    _TETrace <- _trace

ALIAS
    _expression
=============================================================================
\* Generated on Sun Oct 04 18:46:30 UTC 2026