SPECIFICATION Spec
CONSTANTS
  Callers = {1, 2}
  ConnStates = {"up"}
  MaxReplies = 1
  LeakOnSendError = FALSE
  MatchCreation = TRUE
  OtherPeer = FALSE
  ClearOnAnyDisconnect = FALSE
  SeqCallers = FALSE
  GhostCallers = {}
  PeerMayClose = FALSE
  LeakIfGoneAtTimeout = FALSE
  RemoveOnTimeout = FALSE
CHECK_DEADLOCK FALSE
INVARIANT NothingLeft
VIEW View
