SPECIFICATION Spec
CONSTANTS
  Procs = {"p1", "p2", "p3"}
  Names = {"n1", "n2"}
  Clients = {"c1"}
  MaxOps = 6
  NamesSurviveExit = FALSE
  OpKinds = {"spawn", "register", "unregister", "send", "kill", "send_name", "link", "unlink", "monitor", "demonitor"}
  PreSpawn = FALSE
  Sequential = TRUE
CHECK_DEADLOCK FALSE
INVARIANT NameFreedAfterExit
INVARIANT HandledOnceInOrder
INVARIANT NoticeAtMostOnce
INVARIANT LinkedNotifiedSeq
VIEW View
