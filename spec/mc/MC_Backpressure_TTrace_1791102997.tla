---- MODULE MC_Backpressure_TTrace_1791102997 ----
EXTENDS Sequences, TLCExt, Toolbox, MC_Backpressure, Naturals, TLC

_expression ==
    LET MC_Backpressure_TEExpression == INSTANCE MC_Backpressure_TEExpression
    IN MC_Backpressure_TEExpression!expression
----

_trace ==
    LET MC_Backpressure_TETrace == INSTANCE MC_Backpressure_TETrace
    IN MC_Backpressure_TETrace!trace
----

_inv ==
    ~(
        TLCGet("level") = Len(_TETrace)
        /\
        sock = (<<[to |-> "s"], [to |-> "f"], [to |-> "rpc"], [to |-> "s"], [to |-> "f"]>>)
        /\
        parked = ([s |-> 0, f |-> 0])
        /\
        blockedOn = ("s")
        /\
        stalled = ([s |-> TRUE, f |-> FALSE])
        /\
        dropped = (0)
        /\
        delivered = ([s |-> 0, f |-> 0])
        /\
        mbox = ([s |-> 2, f |-> 0])
        /\
        rpcDone = (0)
    )
----

_init ==
    /\ parked = _TETrace[1].parked
    /\ blockedOn = _TETrace[1].blockedOn
    /\ sock = _TETrace[1].sock
    /\ stalled = _TETrace[1].stalled
    /\ dropped = _TETrace[1].dropped
    /\ rpcDone = _TETrace[1].rpcDone
    /\ mbox = _TETrace[1].mbox
    /\ delivered = _TETrace[1].delivered
----

_next ==
    /\ \E i,j \in DOMAIN _TETrace:
        /\ \/ /\ j = i + 1
              /\ i = TLCGet("level")
        /\ parked  = _TETrace[i].parked
        /\ parked' = _TETrace[j].parked
        /\ blockedOn  = _TETrace[i].blockedOn
        /\ blockedOn' = _TETrace[j].blockedOn
        /\ sock  = _TETrace[i].sock
        /\ sock' = _TETrace[j].sock
        /\ stalled  = _TETrace[i].stalled
        /\ stalled' = _TETrace[j].stalled
        /\ dropped  = _TETrace[i].dropped
        /\ dropped' = _TETrace[j].dropped
        /\ rpcDone  = _TETrace[i].rpcDone
        /\ rpcDone' = _TETrace[j].rpcDone
        /\ mbox  = _TETrace[i].mbox
        /\ mbox' = _TETrace[j].mbox
        /\ delivered  = _TETrace[i].delivered
        /\ delivered' = _TETrace[j].delivered

\* Uncomment the ASSUME below to write the states of the error trace
\* to the given file in Json format. Note that you can pass any tuple
\* to `JsonSerialize`. For example, a sub-sequence of _TETrace.
    \* ASSUME
    \*     LET J == INSTANCE Json
    \*         IN J!JsonSerialize("MC_Backpressure_TTrace_1791102997.json", _TETrace)

=============================================================================

 Note that you can extract this module `MC_Backpressure_TEExpression`
  to a dedicated file to reuse `expression` (the module in the 
  dedicated `MC_Backpressure_TEExpression.tla` file takes precedence 
  over the module `MC_Backpressure_TEExpression` below).

---- MODULE MC_Backpressure_TEExpression ----
EXTENDS Sequences, TLCExt, Toolbox, MC_Backpressure, Naturals, TLC

expression == 
    [
        \* To hide variables of the `MC_Backpressure` spec from the error trace,
        \* remove the variables below.  The trace will be written in the order
        \* of the fields of this record.
        parked |-> parked
        ,blockedOn |-> blockedOn
        ,sock |-> sock
        ,stalled |-> stalled
        ,dropped |-> dropped
        ,rpcDone |-> rpcDone
        ,mbox |-> mbox
        ,delivered |-> delivered
        
        \* Put additional constant-, state-, and action-level expressions here:
        \* ,_stateNumber |-> _TEPosition
        \* ,_parkedUnchanged |-> parked = parked'
        
        \* Format the `parked` variable as Json value.
        \* ,_parkedJson |->
        \*     LET J == INSTANCE Json
        \*     IN J!ToJson(parked)
        
        \* Lastly, you may build expressions over arbitrary sets of states by
        \* leveraging the _TETrace operator.  For example, this is how to
        \* count the number of times a spec variable changed up to the current
        \* state in the trace.
        \* ,_parkedModCount |->
        \*     LET F[s \in DOMAIN _TETrace] ==
        \*         IF s = 1 THEN 0
        \*         ELSE IF _TETrace[s].parked # _TETrace[s-1].parked
        \*             THEN 1 + F[s-1] ELSE F[s-1]
        \*     IN F[_TEPosition - 1]
    ]

=============================================================================



Parsing and semantic processing can take forever if the trace below is long.
 In this case, it is advised to uncomment the module below to deserialize the
 trace from a generated binary file.

\*
\*---- MODULE MC_Backpressure_TETrace ----
\*EXTENDS IOUtils, MC_Backpressure, TLC
\*
\*trace == IODeserialize("MC_Backpressure_TTrace_1791102997.bin", TRUE)
\*
\*=============================================================================
\*

---- MODULE MC_Backpressure_TETrace ----
EXTENDS MC_Backpressure, TLC

trace == 
    <<
    ([sock |-> <<[to |-> "s"], [to |-> "s"], [to |-> "s"], [to |-> "f"], [to |-> "rpc"], [to |-> "s"], [to |-> "f"]>>,parked |-> [s |-> 0, f |-> 0],blockedOn |-> "none",stalled |-> [s |-> TRUE, f |-> FALSE],dropped |-> 0,delivered |-> [s |-> 0, f |-> 0],mbox |-> [s |-> 0, f |-> 0],rpcDone |-> 0]),
    ([sock |-> <<[to |-> "s"], [to |-> "s"], [to |-> "f"], [to |-> "rpc"], [to |-> "s"], [to |-> "f"]>>,parked |-> [s |-> 0, f |-> 0],blockedOn |-> "none",stalled |-> [s |-> TRUE, f |-> FALSE],dropped |-> 0,delivered |-> [s |-> 0, f |-> 0],mbox |-> [s |-> 1, f |-> 0],rpcDone |-> 0]),
    ([sock |-> <<[to |-> "s"], [to |-> "f"], [to |-> "rpc"], [to |-> "s"], [to |-> "f"]>>,parked |-> [s |-> 0, f |-> 0],blockedOn |-> "none",stalled |-> [s |-> TRUE, f |-> FALSE],dropped |-> 0,delivered |-> [s |-> 0, f |-> 0],mbox |-> [s |-> 2, f |-> 0],rpcDone |-> 0]),
    ([sock |-> <<[to |-> "s"], [to |-> "f"], [to |-> "rpc"], [to |-> "s"], [to |-> "f"]>>,parked |-> [s |-> 0, f |-> 0],blockedOn |-> "s",stalled |-> [s |-> TRUE, f |-> FALSE],dropped |-> 0,delivered |-> [s |-> 0, f |-> 0],mbox |-> [s |-> 2, f |-> 0],rpcDone |-> 0])
    >>
----


=============================================================================

---- CONFIG MC_Backpressure_TTrace_1791102997 ----
CONSTANTS
    Procs = { "s" , "f" }
    Slow = { "s" }
    Cap = 2
    Wire <- WireDef
    Policy = "wait"

INVARIANT
    _inv

CHECK_DEADLOCK
    \* CHECK_DEADLOCK off because of PROPERTY or INVARIANT above.
    FALSE

INIT
    _init

NEXT
    _next

CONSTANT
    _TETrace <- _trace

ALIAS
    _expression
=============================================================================
\* Generated on Sun Oct 04 08:36:39 UTC 2026