SPECIFICATION Spec
CONSTANTS
  Creations = {1}
  MaxSet = 0
  GivesBackOnFailure = FALSE
  CreationRewinds = FALSE
  Threads = {t1, t2}
  MaxId = 3
  SerialMod = 4
  NAlloc = 3
  StartId = 3
  StartSerial = 3
  LockEnforced = TRUE
  RefThreads = {}
  NRef = 0
  StartCtr = 0
INVARIANT UniqueWhileBounded
INVARIANT NoReissue
INVARIANT IssuedIsSequence
INVARIANT CreationInForce
INVARIANT RefUnique
INVARIANT SerialAdvancesOnWrap
CHECK_DEADLOCK FALSE
