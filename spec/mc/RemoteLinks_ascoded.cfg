SPECIFICATION Spec
CONSTANTS
  RecordsInboundLink = FALSE
  RecordsInboundMonitor = FALSE
  SendsExitToRemote = FALSE
  NotifiesOnConnDown = FALSE
CHECK_DEADLOCK FALSE
INVARIANT PeerToldOfExit
INVARIANT PeerToldOfDown
INVARIANT LocalToldOfLoss
INVARIANT LocalMonitorToldOfLoss
