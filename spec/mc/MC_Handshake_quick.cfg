SPECIFICATION ASpec
CONSTANTS
  MaxCalls = 6
  ClearOnDisconnect = TRUE
CHECK_DEADLOCK FALSE
INVARIANT ProofBeforeConnected
INVARIANT ProofIsFresh
INVARIANT NegotiatedOnlyAfterChallenge
VIEW AView
