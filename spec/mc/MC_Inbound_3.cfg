SPECIFICATION Spec
CONSTANTS
  MaxFrames = 3
INVARIANT ExactRouting
INVARIANT StopsOnlyOnFatal
INVARIANT DeregisteredIffStopped
CHECK_DEADLOCK FALSE
