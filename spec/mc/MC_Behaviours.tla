---------------------------- MODULE MC_Behaviours ----------------------------
EXTENDS Behaviours, Json
Done == nops = MaxOps /\ Quiet
Emit == (~Done') \/ PrintT(ToJson([hist |-> hist', inbox |-> inbox', gsLog |-> gsLog', gsAlive |-> gsAlive', seen |-> seen', installed |-> installed', initial |-> initial']))
=============================================================================
