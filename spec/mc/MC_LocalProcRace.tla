------------------------- MODULE MC_LocalProcRace -------------------------
(***************************************************************************)
(* Interleaved behaviours of LocalProc (Sequential = FALSE) with the order *)
(* of ALL steps -- client operations and the steps of the process tasks -- *)
(* kept as a history, so that each behaviour is a schedule the harness can *)
(* force on a real Node: message handling is gated in the recording        *)
(* processes, the exit path at the guarded points proc.failed /            *)
(* proc.links_snapshot / proc.removing.                                    *)
(*                                                                         *)
(* Grain.  The real exit path has no scheduling point between the exit     *)
(* notices, the monitor snapshot and the down notices, and link / monitor  *)
(* are single calls of the driver; Coarse keeps those steps together so    *)
(* that every generated behaviour can be followed step by step.            *)
(***************************************************************************)
EXTENDS LocalProc, Json
VARIABLE steps
Label == IF hist' # hist THEN [k |-> "client", p |-> "", to |-> "", op |-> hist'[Len(hist')]]
         ELSE IF \E c \in Clients : pc'[c] # pc[c] \/ nops' # nops THEN [k |-> "client2", p |-> "", to |-> "", op |-> <<>>]
         ELSE LET p == CHOOSE p \in Procs : phase'[p] # phase[p] \/ handled'[p] # handled[p]
              IN [k |-> "proc", p |-> p, to |-> phase'[p], op |-> <<>>]
RInit == Init /\ steps = <<>>
RNext == Next /\ steps' = Append(steps, Label)
RSpec == RInit /\ [][RNext]_<<vars, steps>>
Coarse == /\ \A c \in Clients : pc[c] # "idle" => pc'[c] = "idle"
          /\ \A p \in Procs : phase[p] \in {"snap_mons", "notify_mons"} => phase'[p] # phase[p]
Done == nops = MaxOps /\ Quiet /\ \A c \in Clients : pc[c] = "idle"
Emit == (~Done') \/ PrintT(ToJson([steps |-> steps', hist |-> hist', handled |-> handled', notices |-> notices',
                                   alive |-> [p \in Procs |-> p \in byPid'], phase |-> phase']))
=============================================================================
