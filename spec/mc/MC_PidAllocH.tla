--------------------------- MODULE MC_PidAllocH ---------------------------
(* PidAlloc with the schedule (which thread took each step) kept as a history variable, so that *)
(* the counterexample of the weakened spec can be replayed on the real allocator.               *)
EXTENDS PidAlloc
VARIABLE sched
HInit == Init /\ sched = <<>>
HNext == (\E t \in Threads : PStep(t) /\ sched' = Append(sched, t)) /\ UNCHANGED <<origin, nset, epoch>>
HSpec == HInit /\ [][HNext]_<<vars, sched>>
=============================================================================
