SPECIFICATION HSpec
CONSTANTS
  FloatTexts <- TblFloatTexts
  Deflated <- TblDeflated
  AtomsInPlay <- MCAtoms
  SlotsInPlay <- MCSlots
  Messages <- MCMessages
  MaxMsgs = 3
  ReaderIgnoresSegment = FALSE
INVARIANT Resolved
INVARIANT CachesAgree
VIEW HView
CHECK_DEADLOCK FALSE
