SPECIFICATION TSpec
CONSTANTS
  SeqIds = {1, 2}
  MaxN = 3
  MaxOps = 7
  ExpireMode = "none"
  AscendingConcat = FALSE
  DupCheck = TRUE
  RangeCheck = TRUE
  RemoveOnComplete = TRUE
  LateHeaderRefreshes = TRUE
CHECK_DEADLOCK FALSE
INVARIANT Refines
INVARIANT HoldsExactly
INVARIANT AgesAgree
INVARIANT CountMatchesSlots
