SPECIFICATION Spec
CONSTANTS
  Callers = {1, 2}
  ConnStates = {"up", "absent", "broken"}
  MaxReplies = 3
  LeakOnSendError = FALSE
  MatchCreation = TRUE
  OtherPeer = TRUE
  ClearOnAnyDisconnect = FALSE
  SeqCallers = FALSE
  GhostCallers = {}
  PeerMayClose = FALSE
  LeakIfGoneAtTimeout = FALSE
  RemoveOnTimeout = TRUE
CHECK_DEADLOCK FALSE
INVARIANT OwnReplyOnly
INVARIANT AtMostOnce
INVARIANT NothingLeft
INVARIANT NoSpuriousCancel
VIEW View
