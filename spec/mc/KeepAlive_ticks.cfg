SPECIFICATION Spec
CONSTANTS
  NodeTicks = TRUE
  ReadTimeoutQ = 5
  MaxQ = 8
  AppTraffic = FALSE
INVARIANT StaysUp
CHECK_DEADLOCK FALSE
