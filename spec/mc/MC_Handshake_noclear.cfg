SPECIFICATION ASpec
CONSTANTS
  MaxCalls = 7
  ClearOnDisconnect = FALSE
CHECK_DEADLOCK FALSE
INVARIANT ProofBeforeConnected
VIEW AView
