SPECIFICATION Spec
CONSTANTS
  MaxFrames = 2
INVARIANT ExactRouting
INVARIANT StopsOnlyOnFatal
INVARIANT DeregisteredIffStopped
CHECK_DEADLOCK FALSE
