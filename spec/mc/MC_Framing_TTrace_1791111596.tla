---- MODULE MC_Framing_TTrace_1791111596 ----
EXTENDS Sequences, TLCExt, Toolbox, MC_Framing, Naturals, TLC

_expression ==
    LET MC_Framing_TEExpression == INSTANCE MC_Framing_TEExpression
    IN MC_Framing_TEExpression!expression
----

_trace ==
    LET MC_Framing_TETrace == INSTANCE MC_Framing_TETrace
    IN MC_Framing_TETrace!trace
----

_inv ==
    ~(
        TLCGet("level") = Len(_TETrace)
        /\
        phase = ("len")
        /\
        consumed = (9)
        /\
        acc = (<<>>)
        /\
        pends = (0)
        /\
        sched = (<<4, -2, 5>>)
        /\
        need = (4)
        /\
        chunk = (0)
        /\
        closed = (FALSE)
        /\
        giveups = (1)
        /\
        out = (<<<<9>>>>)
    )
----

_init ==
    /\ phase = _TETrace[1].phase
    /\ need = _TETrace[1].need
    /\ pends = _TETrace[1].pends
    /\ chunk = _TETrace[1].chunk
    /\ out = _TETrace[1].out
    /\ consumed = _TETrace[1].consumed
    /\ sched = _TETrace[1].sched
    /\ giveups = _TETrace[1].giveups
    /\ acc = _TETrace[1].acc
    /\ closed = _TETrace[1].closed
----

_next ==
    /\ \E i,j \in DOMAIN _TETrace:
        /\ \/ /\ j = i + 1
              /\ i = TLCGet("level")
        /\ phase  = _TETrace[i].phase
        /\ phase' = _TETrace[j].phase
        /\ need  = _TETrace[i].need
        /\ need' = _TETrace[j].need
        /\ pends  = _TETrace[i].pends
        /\ pends' = _TETrace[j].pends
        /\ chunk  = _TETrace[i].chunk
        /\ chunk' = _TETrace[j].chunk
        /\ out  = _TETrace[i].out
        /\ out' = _TETrace[j].out
        /\ consumed  = _TETrace[i].consumed
        /\ consumed' = _TETrace[j].consumed
        /\ sched  = _TETrace[i].sched
        /\ sched' = _TETrace[j].sched
        /\ giveups  = _TETrace[i].giveups
        /\ giveups' = _TETrace[j].giveups
        /\ acc  = _TETrace[i].acc
        /\ acc' = _TETrace[j].acc
        /\ closed  = _TETrace[i].closed
        /\ closed' = _TETrace[j].closed

\* Uncomment the ASSUME below to write the states of the error trace
\* to the given file in Json format. Note that you can pass any tuple
\* to `JsonSerialize`. For example, a sub-sequence of _TETrace.
    \* ASSUME
    \*     LET J == INSTANCE Json
    \*         IN J!JsonSerialize("MC_Framing_TTrace_1791111596.json", _TETrace)

=============================================================================

 Note that you can extract this module `MC_Framing_TEExpression`
  to a dedicated file to reuse `expression` (the module in the 
  dedicated `MC_Framing_TEExpression.tla` file takes precedence 
  over the module `MC_Framing_TEExpression` below).

---- MODULE MC_Framing_TEExpression ----
EXTENDS Sequences, TLCExt, Toolbox, MC_Framing, Naturals, TLC

expression == 
    [
        \* To hide variables of the `MC_Framing` spec from the error trace,
        \* remove the variables below.  The trace will be written in the order
        \* of the fields of this record.
        phase |-> phase
        ,need |-> need
        ,pends |-> pends
        ,chunk |-> chunk
        ,out |-> out
        ,consumed |-> consumed
        ,sched |-> sched
        ,giveups |-> giveups
        ,acc |-> acc
        ,closed |-> closed
        
        \* Put additional constant-, state-, and action-level expressions here:
        \* ,_stateNumber |-> _TEPosition
        \* ,_phaseUnchanged |-> phase = phase'
        
        \* Format the `phase` variable as Json value.
        \* ,_phaseJson |->
        \*     LET J == INSTANCE Json
        \*     IN J!ToJson(phase)
        
        \* Lastly, you may build expressions over arbitrary sets of states by
        \* leveraging the _TETrace operator.  For example, this is how to
        \* count the number of times a spec variable changed up to the current
        \* state in the trace.
        \* ,_phaseModCount |->
        \*     LET F[s \in DOMAIN _TETrace] ==
        \*         IF s = 1 THEN 0
        \*         ELSE IF _TETrace[s].phase # _TETrace[s-1].phase
        \*             THEN 1 + F[s-1] ELSE F[s-1]
        \*     IN F[_TEPosition - 1]
    ]

=============================================================================



Parsing and semantic processing can take forever if the trace below is long.
 In this case, it is advised to uncomment the module below to deserialize the
 trace from a generated binary file.

\*
\*---- MODULE MC_Framing_TETrace ----
\*EXTENDS IOUtils, MC_Framing, TLC
\*
\*trace == IODeserialize("MC_Framing_TTrace_1791111596.bin", TRUE)
\*
\*=============================================================================
\*

---- MODULE MC_Framing_TETrace ----
EXTENDS MC_Framing, TLC

trace == 
    <<
    ([phase |-> "len",consumed |-> 0,acc |-> <<>>,pends |-> 0,sched |-> <<>>,need |-> 4,chunk |-> 0,closed |-> FALSE,giveups |-> 0,out |-> <<>>]),
    ([phase |-> "len",consumed |-> 0,acc |-> <<>>,pends |-> 0,sched |-> <<4>>,need |-> 4,chunk |-> 4,closed |-> FALSE,giveups |-> 0,out |-> <<>>]),
    ([phase |-> "body",consumed |-> 4,acc |-> <<>>,pends |-> 0,sched |-> <<4>>,need |-> 5,chunk |-> 0,closed |-> FALSE,giveups |-> 0,out |-> <<>>]),
    ([phase |-> "len",consumed |-> 4,acc |-> <<>>,pends |-> 0,sched |-> <<4, -2>>,need |-> 4,chunk |-> 0,closed |-> FALSE,giveups |-> 1,out |-> <<>>]),
    ([phase |-> "len",consumed |-> 4,acc |-> <<>>,pends |-> 0,sched |-> <<4, -2, 5>>,need |-> 4,chunk |-> 5,closed |-> FALSE,giveups |-> 1,out |-> <<>>]),
    ([phase |-> "body",consumed |-> 8,acc |-> <<>>,pends |-> 0,sched |-> <<4, -2, 5>>,need |-> 1,chunk |-> 1,closed |-> FALSE,giveups |-> 1,out |-> <<>>]),
    ([phase |-> "len",consumed |-> 9,acc |-> <<>>,pends |-> 0,sched |-> <<4, -2, 5>>,need |-> 4,chunk |-> 0,closed |-> FALSE,giveups |-> 1,out |-> <<<<9>>>>])
    >>
----


=============================================================================

---- CONFIG MC_Framing_TTrace_1791111596 ----
CONSTANTS
    Sent <- SentNested
    Prefix = 4
    Cap = 100
    MaxGiveUps = 1
    ResumeAfterTimeout = TRUE
    EofYieldsShort = FALSE
    MaxPend = 2

INVARIANT
    _inv

CHECK_DEADLOCK
    \* CHECK_DEADLOCK off because of PROPERTY or INVARIANT above.
    FALSE

INIT
    _init

NEXT
    _next

CONSTANT
    _TETrace <- _trace

ALIAS
    _expression
=============================================================================
\* Generated on Sun Oct 04 10:59:57 UTC 2026