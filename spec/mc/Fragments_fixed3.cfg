SPECIFICATION Spec
CONSTANTS
  SeqIds = {1, 2, 3}
  MaxN = 3
  MaxOps = 7
  ExpireMode = "none"
  AscendingConcat = FALSE
  DupCheck = TRUE
  RangeCheck = TRUE
  RemoveOnComplete = TRUE
CHECK_DEADLOCK FALSE
INVARIANT Refines
INVARIANT HeldOnlyIncomplete
INVARIANT CountMatchesSlots
