SPECIFICATION Spec
CONSTANTS
  Procs = {"s", "f"}
  Slow = {"s"}
  Cap = 2
  Wire <- WireDef
  Policy = "park"
CHECK_DEADLOCK FALSE
INVARIANT NoHeadOfLine
INVARIANT NothingDropped
PROPERTY FastGetsAll
PROPERTY RpcAnswered
