SPECIFICATION HSpec
CONSTANTS
  FloatTexts <- TblFloatTexts
  Deflated <- TblDeflated
  AtomsInPlay <- MCAtoms
  SlotsInPlay <- MCSlots
  Messages <- MCMessages
  MaxMsgs = 3
  ReaderIgnoresSegment = TRUE
INVARIANT Resolved
VIEW HView
CHECK_DEADLOCK FALSE
