SPECIFICATION HSpec
CONSTANTS
  Creations = {1}
  MaxSet = 0
  GivesBackOnFailure = FALSE
  CreationRewinds = FALSE
  Threads = {1, 2}
  MaxId = 3
  SerialMod = 4
  NAlloc = 1
  StartId = 1
  StartSerial = 0
  LockEnforced = FALSE
  RefThreads = {}
  NRef = 0
  StartCtr = 0
INVARIANT UniqueWhileBounded
CHECK_DEADLOCK FALSE
