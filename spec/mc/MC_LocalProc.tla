--------------------------- MODULE MC_LocalProc ---------------------------
EXTENDS LocalProc, Json
Done == nops = MaxOps /\ Quiet /\ \A c \in Clients : pc[c] = "idle"
Emit == (~Done') \/ PrintT(ToJson([hist |-> hist', handled |-> handled', notices |-> notices', byName |-> byName', alive |-> [p \in Procs |-> p \in byPid'],
                                   phase |-> phase']))
=============================================================================
