SPECIFICATION Spec
CONSTANTS
  Sent <- Sent2
  Prefix = 2
  Cap = 100
  MaxGiveUps = 0
  ResumeAfterTimeout = FALSE
  EofYieldsShort = FALSE
  MaxPend = 2
INVARIANT OutIsPrefixOfSent
INVARIANT AllDeliveredWhenConsumed
INVARIANT NoShortMessage
INVARIANT OverCapRefused
CHECK_DEADLOCK FALSE
VIEW View
