SPECIFICATION Spec
CONSTANTS
  Tasks = {1, 2}
  NOps = 1
  PartsOf <- MCParts
  FrameLockHeld = FALSE
  WritesWhole = TRUE
  Connected = TRUE
INVARIANT FramesIntact
CHECK_DEADLOCK FALSE
