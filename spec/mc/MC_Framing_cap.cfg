SPECIFICATION Spec
CONSTANTS
  Sent <- SentCap
  Prefix = 2
  Cap = 3
  MaxGiveUps = 0
  ResumeAfterTimeout = FALSE
  EofYieldsShort = FALSE
  MaxPend = 1
INVARIANT OutIsPrefixOfSent
INVARIANT AllDeliveredWhenConsumed
INVARIANT NoShortMessage
INVARIANT OverCapRefused
CHECK_DEADLOCK FALSE
VIEW View
