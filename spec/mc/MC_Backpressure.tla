--------------------------- MODULE MC_Backpressure ---------------------------
EXTENDS Backpressure
F(p) == [to |-> p]
\* three messages for the slow process (capacity 2), then one for the fast one, an RPC reply, and more of both
WireDef == <<F("s"), F("s"), F("s"), F("f"), F("rpc"), F("s"), F("f")>>
=============================================================================
