SPECIFICATION Spec
CONSTANTS
  Callers = {"k1", "k2"}
  Handlers = {"h1", "h2"}
  ErrorReplyOnMissing = FALSE
  MaxOps = 2
INVARIANT AnswerOnce
INVARIANT AnswerToCaller
INVARIANT Answered
INVARIANT EventOnce
INVARIANT GeAnswered
CHECK_DEADLOCK FALSE
