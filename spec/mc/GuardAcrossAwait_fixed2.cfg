SPECIFICATION Spec
CONSTANTS
  Workers = 2
  HoldAcrossAwait = FALSE
INVARIANT NeverWedged
PROPERTY SendCompletes
CHECK_DEADLOCK FALSE
