SPECIFICATION Spec
CONSTANTS
  Procs = {"p1", "p2"}
  Names = {"n1"}
  Clients = {"c1"}
  MaxOps = 5
  NamesSurviveExit = TRUE
  OpKinds = {"spawn", "register", "unregister", "send", "kill", "send_name", "link", "unlink", "monitor", "demonitor"}
  PreSpawn = FALSE
  Sequential = TRUE
CHECK_DEADLOCK FALSE
INVARIANT NameFreedAfterExit
VIEW View
