SPECIFICATION Spec
CONSTANTS
  Procs = {"p1", "p2"}
  Names = {"n1"}
  Clients = {"c1"}
  MaxOps = 5
  NamesSurviveExit = TRUE
  Sequential = TRUE
CHECK_DEADLOCK FALSE
INVARIANT NameFreedAfterExit
VIEW View
