SPECIFICATION Spec
CONSTANTS
  Callers = {1, 2, 3, 4}
  Peers = {"A", "B"}
  Target <- TargetDef
  IdsPerPeer = FALSE
INVARIANT OwnReplyOnly
PROPERTY AllAnswered
CHECK_DEADLOCK FALSE
