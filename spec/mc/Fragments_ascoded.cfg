SPECIFICATION Spec
CONSTANTS
  SeqIds = {1, 2}
  MaxN = 3
  MaxOps = 6
  ExpireMode = "all"
  AscendingConcat = TRUE
  DupCheck = TRUE
  RangeCheck = TRUE
  RemoveOnComplete = TRUE
CHECK_DEADLOCK FALSE
INVARIANT Refines
