SPECIFICATION Spec
CONSTANTS
  Tasks = {1, 2}
  NOps = 2
  PartsOf <- MCParts
  FrameLockHeld = TRUE
  WritesWhole = TRUE
  Connected = FALSE
INVARIANT FramesIntact
INVARIANT OrderPerTask
INVARIANT NoWriteBeforeConnected
VIEW View
CHECK_DEADLOCK FALSE
