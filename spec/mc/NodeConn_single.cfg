SPECIFICATION Spec
CONSTANTS
  Callers = {"c1", "c2"}
  MaxConns = 3
  MaxAttempts = 2
  RemoveByIdentity = TRUE
  SingleFlight = TRUE
  PeerRejectsDuplicates = FALSE
INVARIANT NoLiveOrphan
INVARIANT NoDeadEntry
CHECK_DEADLOCK FALSE
INVARIANT AtMostOneOpen
