--------------------------------- MODULE Rpc ---------------------------------
(***************************************************************************)
(* Remote procedure calls of a node (property C17):                        *)
(* Node::rpc_call_raw_with_timeout, the outstanding-call table and the     *)
(* receiver task's routing, one action per critical section of the code.   *)
(*                                                                         *)
(*   caller c : Alloc -> Insert -> SendOk | SendFail | NoConn              *)
(*              -> (GotReply | Timeout -> Cleanup) -> returned             *)
(*   receiver : Route  (registry miss, then removal from the table and     *)
(*              hand-over through the call's one-shot channel)             *)
(*   peer     : Reply(r) for any call it has seen, as often as it likes,   *)
(*              in any order, or for an id nobody uses (Stray), or for the *)
(*              reply pid of a call as it was in an earlier incarnation of *)
(*              the node: same number and serial, other creation (Stale)   *)
(*                                                                         *)
(* Switches.  Protection RemoveOnTimeout (TRUE in the code); deviation     *)
(* LeakOnSendError (FALSE since the fix of commit 18c56d0).  Protection    *)
(* MatchCreation (TRUE in the code: the table key holds the creation).     *)
(***************************************************************************)
EXTENDS Integers, Sequences, FiniteSets, TLC
CONSTANTS Callers,          \* 1..n
          ConnStates,       \* subset of {"up", "absent", "broken", "closing"} the scenario may start in
                            \* (broken: the peer reset the connection, writes fail; closing: the peer closed its side, the receiver has seen the end of
                            \*  the stream but has not deregistered the connection yet: writes still succeed, nothing is answered)
          MaxReplies, LeakOnSendError, RemoveOnTimeout, MatchCreation,
          OtherPeer,        \* TRUE: the node also has a connection to a second peer, which may go down at any time
          ClearOnAnyDisconnect,  \* deviation (FALSE in the code): the end of ANY connection's receiver empties the node-wide table
          PeerMayClose,     \* TRUE: the peer may close the connection in mid-behaviour (PeerCloses) and the receiver deregister it (Deregister)
          LeakIfGoneAtTimeout,   \* deviation (FALSE in the code): a call that times out after its connection was deregistered keeps its table entry
          GhostCallers,     \* callers whose call goes to a node this node has no connection to (it fails with "not connected" whatever the
                            \* state of the connection to the peer is); the others call the peer
          SeqCallers        \* TRUE: generator configurations in which caller c starts only after every caller below c has returned
VARIABLES pc, rid, table, conn, wire, inbox, result, nextRid, replies, delivered, hist,
          otherUp     \* the connection to the second peer is up
vars == <<pc, rid, table, conn, wire, inbox, result, nextRid, replies, delivered, hist, otherUp>>
None == 0
Stray == 99            \* a call id no caller owns
Stale(r) == r + 50     \* the reply pid of call r with the creation of an earlier incarnation of the node
IsStale(a) == a > 50 /\ a < Stray
Key(a) == IF IsStale(a) /\ ~MatchCreation THEN a - 50 ELSE a     \* what the receiver looks up in the table
R(k, r) == [k |-> k, r |-> r]
ConnCode(s) == CASE s = "up" -> 0 [] s = "absent" -> 1 [] s = "broken" -> 2 [] s = "closing" -> 3
Init == /\ pc = [c \in Callers |-> "idle"] /\ rid = [c \in Callers |-> None] /\ table = {}
        /\ conn \in ConnStates /\ wire = {} /\ inbox = <<>>
        /\ result = [c \in Callers |-> R("none", 0)] /\ nextRid = 1 /\ replies = 0
        /\ delivered = [r \in 1..Cardinality(Callers) |-> 0] /\ hist = << <<"start", ConnCode(conn)>> >> /\ otherUp = OtherPeer
Go(c, from, to) == pc[c] = from /\ pc' = [pc EXCEPT ![c] = to]
H(a, x) == hist' = Append(hist, <<a, x>>)
Alloc(c)  == Go(c, "idle", "allocated") /\ (SeqCallers => \A d \in Callers : d < c => pc[d] = "returned") /\ rid' = [rid EXCEPT ![c] = nextRid] /\ nextRid' = nextRid + 1 /\ H("alloc", c)
             /\ UNCHANGED <<table, conn, wire, inbox, result, replies, delivered>>
Insert(c) == Go(c, "allocated", "inserted") /\ table' = table \cup {rid[c]} /\ H("insert", c)
             /\ UNCHANGED <<rid, conn, wire, inbox, result, nextRid, replies, delivered>>
NoConn(c) == Go(c, "inserted", "returned") /\ (conn = "absent" \/ c \in GhostCallers) /\ table' = table \ {rid[c]}
             /\ result' = [result EXCEPT ![c] = R("not_connected", 0)] /\ H("send", c)
             /\ UNCHANGED <<rid, conn, wire, inbox, nextRid, replies, delivered>>
SendOk(c) == Go(c, "inserted", "awaiting") /\ c \notin GhostCallers /\ conn \in {"up", "closing"} /\ wire' = wire \cup {rid[c]} /\ H("send", c)
             /\ UNCHANGED <<rid, table, conn, inbox, result, nextRid, replies, delivered>>
SendFail(c) == Go(c, "inserted", "returned") /\ c \notin GhostCallers /\ conn = "broken"
             /\ table' = (IF LeakOnSendError THEN table ELSE table \ {rid[c]})
             /\ result' = [result EXCEPT ![c] = R("send_error", 0)] /\ H("send", c)
             /\ UNCHANGED <<rid, conn, wire, inbox, nextRid, replies, delivered>>
Timeout(c) == Go(c, "awaiting", "timedout") /\ result[c].k = "none" /\ H("timeout", c)
             /\ UNCHANGED <<rid, table, conn, wire, inbox, result, nextRid, replies, delivered>>
\* a reply handed over after the timer fired but before the caller looks again is lost to the caller
Cleanup(c) == Go(c, "timedout", "returned") /\ table' = (IF RemoveOnTimeout /\ ~(LeakIfGoneAtTimeout /\ conn = "absent") THEN table \ {rid[c]} ELSE table)
             /\ result' = [result EXCEPT ![c] = R("timeout", 0)] /\ H("cleanup", c)
             /\ UNCHANGED <<rid, conn, wire, inbox, nextRid, replies, delivered>>
GotReply(c) == Go(c, "awaiting", "returned") /\ result[c].k # "none" /\ H("wake", c)
             /\ UNCHANGED <<rid, table, conn, wire, inbox, result, nextRid, replies, delivered>>
PeerReply(r) == /\ conn = "up" /\ replies < MaxReplies /\ replies' = replies + 1 /\ inbox' = Append(inbox, r) /\ H("reply", r)
                /\ UNCHANGED <<pc, rid, table, conn, wire, result, nextRid, delivered>>
Route == /\ inbox # <<>> /\ inbox' = Tail(inbox) /\ H("route", Head(inbox))
         /\ LET r == Head(inbox)
                k == Key(r) IN
            IF k \in table
            THEN /\ table' = table \ {k}
                 /\ LET c == CHOOSE c \in Callers : rid[c] = k IN
                    result' = [result EXCEPT ![c] = IF result[c].k = "none" /\ pc[c] # "timedout" THEN R("reply", r) ELSE result[c]]
                 /\ delivered' = [delivered EXCEPT ![k] = @ + 1]
            ELSE UNCHANGED <<table, result, delivered>>
         /\ UNCHANGED <<pc, rid, conn, wire, nextRid, replies>>
\* the second peer closes its connection: that connection's receiver ends and deregisters it; the outstanding-call table is node-wide
\* and keyed by reply pid only, so the calls to the first peer must not notice
OtherPeerCloses == /\ otherUp /\ otherUp' = FALSE /\ H("other_close", 0)
                   /\ IF ClearOnAnyDisconnect
                      THEN /\ table' = {}
                           /\ result' = [c \in Callers |-> IF pc[c] = "awaiting" /\ result[c].k = "none" THEN R("cancelled", 0) ELSE result[c]]
                      ELSE UNCHANGED <<table, result>>
                   /\ UNCHANGED <<pc, rid, conn, wire, inbox, nextRid, replies, delivered>>
\* the peer closes its side (everything it sent has been routed): the receiver sees the end of the stream and is on its way to
\* deregistering the connection; until it does, callers still find the connection and their requests are written without error
PeerCloses == /\ PeerMayClose /\ conn = "up" /\ inbox = <<>> /\ conn' = "closing" /\ H("peer_close", 0)
              /\ UNCHANGED <<pc, rid, table, wire, inbox, result, nextRid, replies, delivered>>
\* the receiver task deregisters the connection (connections.remove); calls in flight on it are left to their timers
Deregister == /\ PeerMayClose /\ conn \in {"closing", "broken"} /\ conn' = "absent" /\ H("deregister", 0)
              /\ UNCHANGED <<pc, rid, table, wire, inbox, result, nextRid, replies, delivered>>
Next0 == \/ PeerCloses \/ Deregister
        \/ \E c \in Callers : Alloc(c) \/ Insert(c) \/ NoConn(c) \/ SendOk(c) \/ SendFail(c) \/ Timeout(c) \/ Cleanup(c) \/ GotReply(c)
        \/ \E r \in wire \cup {Stray} \cup {Stale(w) : w \in wire} : PeerReply(r)
        \/ Route
Next == (Next0 /\ UNCHANGED otherUp) \/ OtherPeerCloses
Spec == Init /\ [][Next]_vars
\* ---- C17
OwnReplyOnly == \A c \in Callers : result[c].k = "reply" => result[c].r = rid[c]
AtMostOnce == \A r \in DOMAIN delivered : delivered[r] <= 1
Quiescent == (\A c \in Callers : pc[c] = "returned") /\ inbox = <<>>
NothingLeft == Quiescent => table = {}
\* a call is cancelled only by the end of its own connection (which this model never ends while a call is outstanding)
NoSpuriousCancel == \A c \in Callers : result[c].k # "cancelled"
View == <<pc, rid, table, conn, wire, inbox, result, nextRid, replies, delivered, otherUp>>
=============================================================================
