---- MODULE FragmentsTimed_TTrace_1791099840 ----
EXTENDS Sequences, TLCExt, Toolbox, Naturals, TLC, FragmentsTimed

_expression ==
    LET FragmentsTimed_TEExpression == INSTANCE FragmentsTimed_TEExpression
    IN FragmentsTimed_TEExpression!expression
----

_trace ==
    LET FragmentsTimed_TETrace == INSTANCE FragmentsTimed_TETrace
    IN FragmentsTimed_TETrace!trace
----

_inv ==
    ~(
        TLCGet("level") = Len(_TETrace)
        /\
        aGot = (<<{1, 3}, {}>>)
        /\
        iAge = (<<0, 0>>)
        /\
        iPresent = (<<FALSE, FALSE>>)
        /\
        aAge = (<<1, 0>>)
        /\
        act = ([id |-> 0, name |-> "cleanup", seq |-> 0])
        /\
        retA = (<<>>)
        /\
        nops = (5)
        /\
        iCount = (<<0, 0>>)
        /\
        aTotal = (<<3, 0>>)
        /\
        iTotal = (<<0, 0>>)
        /\
        iPendingFr = (<<{}, {}>>)
        /\
        iSlots = (<<{}, {}>>)
        /\
        retI = (<<>>)
    )
----

_init ==
    /\ iPresent = _TETrace[1].iPresent
    /\ nops = _TETrace[1].nops
    /\ iSlots = _TETrace[1].iSlots
    /\ retA = _TETrace[1].retA
    /\ retI = _TETrace[1].retI
    /\ aGot = _TETrace[1].aGot
    /\ iCount = _TETrace[1].iCount
    /\ aAge = _TETrace[1].aAge
    /\ act = _TETrace[1].act
    /\ iTotal = _TETrace[1].iTotal
    /\ aTotal = _TETrace[1].aTotal
    /\ iAge = _TETrace[1].iAge
    /\ iPendingFr = _TETrace[1].iPendingFr
----

_next ==
    /\ \E i,j \in DOMAIN _TETrace:
        /\ \/ /\ j = i + 1
              /\ i = TLCGet("level")
        /\ iPresent  = _TETrace[i].iPresent
        /\ iPresent' = _TETrace[j].iPresent
        /\ nops  = _TETrace[i].nops
        /\ nops' = _TETrace[j].nops
        /\ iSlots  = _TETrace[i].iSlots
        /\ iSlots' = _TETrace[j].iSlots
        /\ retA  = _TETrace[i].retA
        /\ retA' = _TETrace[j].retA
        /\ retI  = _TETrace[i].retI
        /\ retI' = _TETrace[j].retI
        /\ aGot  = _TETrace[i].aGot
        /\ aGot' = _TETrace[j].aGot
        /\ iCount  = _TETrace[i].iCount
        /\ iCount' = _TETrace[j].iCount
        /\ aAge  = _TETrace[i].aAge
        /\ aAge' = _TETrace[j].aAge
        /\ act  = _TETrace[i].act
        /\ act' = _TETrace[j].act
        /\ iTotal  = _TETrace[i].iTotal
        /\ iTotal' = _TETrace[j].iTotal
        /\ aTotal  = _TETrace[i].aTotal
        /\ aTotal' = _TETrace[j].aTotal
        /\ iAge  = _TETrace[i].iAge
        /\ iAge' = _TETrace[j].iAge
        /\ iPendingFr  = _TETrace[i].iPendingFr
        /\ iPendingFr' = _TETrace[j].iPendingFr

\* Uncomment the ASSUME below to write the states of the error trace
\* to the given file in Json format. Note that you can pass any tuple
\* to `JsonSerialize`. For example, a sub-sequence of _TETrace.
    \* ASSUME
    \*     LET J == INSTANCE Json
    \*         IN J!JsonSerialize("FragmentsTimed_TTrace_1791099840.json", _TETrace)

=============================================================================

 Note that you can extract this module `FragmentsTimed_TEExpression`
  to a dedicated file to reuse `expression` (the module in the 
  dedicated `FragmentsTimed_TEExpression.tla` file takes precedence 
  over the module `FragmentsTimed_TEExpression` below).

---- MODULE FragmentsTimed_TEExpression ----
EXTENDS Sequences, TLCExt, Toolbox, Naturals, TLC, FragmentsTimed

expression == 
    [
        \* To hide variables of the `FragmentsTimed` spec from the error trace,
        \* remove the variables below.  The trace will be written in the order
        \* of the fields of this record.
        iPresent |-> iPresent
        ,nops |-> nops
        ,iSlots |-> iSlots
        ,retA |-> retA
        ,retI |-> retI
        ,aGot |-> aGot
        ,iCount |-> iCount
        ,aAge |-> aAge
        ,act |-> act
        ,iTotal |-> iTotal
        ,aTotal |-> aTotal
        ,iAge |-> iAge
        ,iPendingFr |-> iPendingFr
        
        \* Put additional constant-, state-, and action-level expressions here:
        \* ,_stateNumber |-> _TEPosition
        \* ,_iPresentUnchanged |-> iPresent = iPresent'
        
        \* Format the `iPresent` variable as Json value.
        \* ,_iPresentJson |->
        \*     LET J == INSTANCE Json
        \*     IN J!ToJson(iPresent)
        
        \* Lastly, you may build expressions over arbitrary sets of states by
        \* leveraging the _TETrace operator.  For example, this is how to
        \* count the number of times a spec variable changed up to the current
        \* state in the trace.
        \* ,_iPresentModCount |->
        \*     LET F[s \in DOMAIN _TETrace] ==
        \*         IF s = 1 THEN 0
        \*         ELSE IF _TETrace[s].iPresent # _TETrace[s-1].iPresent
        \*             THEN 1 + F[s-1] ELSE F[s-1]
        \*     IN F[_TEPosition - 1]
    ]

=============================================================================



Parsing and semantic processing can take forever if the trace below is long.
 In this case, it is advised to uncomment the module below to deserialize the
 trace from a generated binary file.

\*
\*---- MODULE FragmentsTimed_TETrace ----
\*EXTENDS IOUtils, TLC, FragmentsTimed
\*
\*trace == IODeserialize("FragmentsTimed_TTrace_1791099840.bin", TRUE)
\*
\*=============================================================================
\*

---- MODULE FragmentsTimed_TETrace ----
EXTENDS TLC, FragmentsTimed

trace == 
    <<
    ([aGot |-> <<{}, {}>>,iAge |-> <<0, 0>>,iPresent |-> <<FALSE, FALSE>>,aAge |-> <<0, 0>>,act |-> [name |-> "init"],retA |-> <<>>,nops |-> 0,iCount |-> <<0, 0>>,aTotal |-> <<0, 0>>,iTotal |-> <<0, 0>>,iPendingFr |-> <<{}, {}>>,iSlots |-> <<{}, {}>>,retI |-> <<>>]),
    ([aGot |-> <<{1}, {}>>,iAge |-> <<0, 0>>,iPresent |-> <<TRUE, FALSE>>,aAge |-> <<0, 0>>,act |-> [id |-> 1, name |-> "cont", seq |-> 1],retA |-> <<>>,nops |-> 1,iCount |-> <<0, 0>>,aTotal |-> <<0, 0>>,iTotal |-> <<0, 0>>,iPendingFr |-> <<{1}, {}>>,iSlots |-> <<{}, {}>>,retI |-> <<>>]),
    ([aGot |-> <<{1}, {}>>,iAge |-> <<1, 0>>,iPresent |-> <<TRUE, FALSE>>,aAge |-> <<1, 0>>,act |-> [id |-> 0, name |-> "tick", seq |-> 0],retA |-> <<>>,nops |-> 2,iCount |-> <<0, 0>>,aTotal |-> <<0, 0>>,iTotal |-> <<0, 0>>,iPendingFr |-> <<{1}, {}>>,iSlots |-> <<{}, {}>>,retI |-> <<>>]),
    ([aGot |-> <<{1, 3}, {}>>,iAge |-> <<1, 0>>,iPresent |-> <<TRUE, FALSE>>,aAge |-> <<0, 0>>,act |-> [id |-> 3, name |-> "start", seq |-> 1],retA |-> <<>>,nops |-> 3,iCount |-> <<2, 0>>,aTotal |-> <<3, 0>>,iTotal |-> <<3, 0>>,iPendingFr |-> <<{}, {}>>,iSlots |-> <<{1, 3}, {}>>,retI |-> <<>>]),
    ([aGot |-> <<{1, 3}, {}>>,iAge |-> <<2, 0>>,iPresent |-> <<TRUE, FALSE>>,aAge |-> <<1, 0>>,act |-> [id |-> 0, name |-> "tick", seq |-> 0],retA |-> <<>>,nops |-> 4,iCount |-> <<2, 0>>,aTotal |-> <<3, 0>>,iTotal |-> <<3, 0>>,iPendingFr |-> <<{}, {}>>,iSlots |-> <<{1, 3}, {}>>,retI |-> <<>>]),
    ([aGot |-> <<{1, 3}, {}>>,iAge |-> <<0, 0>>,iPresent |-> <<FALSE, FALSE>>,aAge |-> <<1, 0>>,act |-> [id |-> 0, name |-> "cleanup", seq |-> 0],retA |-> <<>>,nops |-> 5,iCount |-> <<0, 0>>,aTotal |-> <<3, 0>>,iTotal |-> <<0, 0>>,iPendingFr |-> <<{}, {}>>,iSlots |-> <<{}, {}>>,retI |-> <<>>])
    >>
----


=============================================================================

---- CONFIG FragmentsTimed_TTrace_1791099840 ----
CONSTANTS
    SeqIds = { 1 , 2 }
    MaxN = 3
    MaxOps = 7
    ExpireMode = "none"
    AscendingConcat = FALSE
    DupCheck = TRUE
    RangeCheck = TRUE
    RemoveOnComplete = TRUE
    LateHeaderRefreshes = FALSE

INVARIANT
    _inv

CHECK_DEADLOCK
    \* CHECK_DEADLOCK off because of PROPERTY or INVARIANT above.
    FALSE

INIT
    _init

NEXT
    _next

CONSTANT
    _TETrace <- _trace

ALIAS
    _expression
=============================================================================
\* Generated on Sun Oct 04 07:44:01 UTC 2026