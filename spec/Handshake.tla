----------------------------- MODULE Handshake -----------------------------
(***************************************************************************)
(* Distribution handshake, initiator side (property C04).                  *)
(*                                                                         *)
(* Layer 1 (API): HandshakeStateMachine as an object whose public methods  *)
(* may be called in any order with valid and invalid arguments.  Arguments *)
(* are message CLASSES; the harness turns a class into bytes.              *)
(*   proof   : a well-formed ack carrying Digest(cookie, ourChallenge) was *)
(*             handled after that challenge was issued, in this epoch      *)
(*   C04     : Connected  =>  proof                                        *)
(* The digest is uninterpreted here: an ack of class "right" can only be   *)
(* formed by a peer that saw our challenge (revealed by the reply).        *)
(*                                                                         *)
(* Layer 2 (wire): Connection::connect against a peer that, at each of its *)
(* turns, conforms or deviates.  Connected exactly on the conforming path, *)
(* an error (within the timeout) on every other.                           *)
(*                                                                         *)
(* Message layouts (frames carry a 2-byte length) are given as operators   *)
(* over byte sequences at the end.                                         *)
(***************************************************************************)
EXTENDS Integers, Sequences, FiniteSets, TLC

\* ------------------------------------------------------------------ layer 1: API
CONSTANT MaxCalls,
         ClearOnDisconnect    \* protection switch (TRUE in the code): disconnect forgets both challenges
StatusClasses == {"ok", "ok_simultaneous", "nok", "not_allowed", "alive", "unknown_status", "wrong_tag", "empty", "non_utf8"}
ChallengeClasses == {"good", "good_extra_bytes", "wrong_tag", "truncated_flags", "truncated_name", "name_len_lies", "non_utf8_name", "empty"}
AckClasses == {"right", "right_extra_bytes", "stale", "wrong_digest", "wrong_tag", "short", "empty"}
GoodChallenge(c) == c \in {"good", "good_extra_bytes"}

VARIABLES state,      \* ConnectionState as the code names it (implementation layer; compared as drift only)
          chalSet,    \* this side holds a challenge of its own
          revealed,   \* ... and has revealed it to the peer (challenge reply prepared since it was generated)
          hasStale,   \* the peer knows an earlier challenge of this side (from an earlier reply)
          fresh,      \* the challenge held was generated in the current epoch (since the last disconnect)
          proof,      \* a right ack for the current challenge was handled since it was issued
          negotiated, \* negotiated flags are set (to the AND of both sides)
          call, ret, ncalls
avars == <<state, chalSet, revealed, hasStale, fresh, proof, negotiated, call, ret, ncalls>>

AInit == /\ state = "disconnected" /\ chalSet = FALSE /\ revealed = FALSE /\ hasStale = FALSE /\ fresh = FALSE /\ proof = FALSE
         /\ negotiated = FALSE /\ call = [name |-> "new", class |-> ""] /\ ret = "ok" /\ ncalls = 0
Step(n, c, r) == /\ ncalls < MaxCalls /\ call' = [name |-> n, class |-> c] /\ ret' = r /\ ncalls' = ncalls + 1
BeginConnect ==
  /\ IF state = "disconnected" THEN state' = "connecting" /\ Step("begin_connect", "", "ok")
                               ELSE UNCHANGED state /\ Step("begin_connect", "", "err")
  /\ UNCHANGED <<chalSet, revealed, hasStale, fresh, proof, negotiated>>
PrepareSendName == /\ state' = "awaiting_status" /\ Step("prepare_send_name", "", "bytes")
                   /\ UNCHANGED <<chalSet, revealed, hasStale, fresh, proof, negotiated>>
HandleStatus(c) == /\ Step("handle_status", c, IF c \in {"ok", "ok_simultaneous"} THEN "ok" ELSE "err")
                   /\ UNCHANGED <<state, chalSet, revealed, hasStale, fresh, proof, negotiated>>
PrepareComplement == /\ Step("prepare_complement", "", "bytes")
                     /\ UNCHANGED <<state, chalSet, revealed, hasStale, fresh, proof, negotiated>>
HandleChallenge(c) ==
  /\ state' = "awaiting_challenge"
  /\ IF GoodChallenge(c)
     THEN /\ chalSet' = TRUE /\ revealed' = FALSE /\ hasStale' = (hasStale \/ revealed) /\ fresh' = TRUE /\ proof' = FALSE /\ negotiated' = TRUE
          /\ Step("handle_challenge", c, "ok")
     ELSE /\ UNCHANGED <<chalSet, revealed, hasStale, fresh, proof, negotiated>> /\ Step("handle_challenge", c, "err")
PrepareChallengeReply ==
  IF chalSet THEN /\ state' = "awaiting_challenge_ack" /\ revealed' = TRUE /\ Step("prepare_challenge_reply", "", "bytes")
                  /\ UNCHANGED <<chalSet, hasStale, fresh, proof, negotiated>>
             ELSE /\ state' = "sending_challenge_reply" /\ Step("prepare_challenge_reply", "", "err")
                  /\ UNCHANGED <<chalSet, revealed, hasStale, fresh, proof, negotiated>>
HandleAck(c) ==
  /\ (c \in {"right", "right_extra_bytes"}) => (chalSet /\ revealed)      \* only a peer that saw the challenge can form it
  /\ (c = "stale") => hasStale
  /\ IF c \in {"right", "right_extra_bytes"}
     THEN /\ state' = "connected" /\ proof' = fresh /\ Step("handle_challenge_ack", c, "ok")
     ELSE /\ UNCHANGED <<state, proof>> /\ Step("handle_challenge_ack", c, "err")
  /\ UNCHANGED <<chalSet, revealed, hasStale, fresh, negotiated>>
Disconnect ==
  /\ state' = "disconnected" /\ proof' = FALSE /\ negotiated' = FALSE /\ fresh' = FALSE
  /\ IF ClearOnDisconnect
     THEN /\ chalSet' = FALSE /\ revealed' = FALSE /\ hasStale' = (hasStale \/ revealed)
     ELSE UNCHANGED <<chalSet, revealed, hasStale>>
  /\ Step("disconnect", "", "ok")
ANext == \/ BeginConnect \/ PrepareSendName \/ PrepareComplement \/ PrepareChallengeReply \/ Disconnect
         \/ \E c \in StatusClasses : HandleStatus(c)
         \/ \E c \in ChallengeClasses : HandleChallenge(c)
         \/ \E c \in AckClasses : HandleAck(c)
ASpec == AInit /\ [][ANext]_avars
\* C04: connected only after the cookie proof for the challenge issued in this same handshake
ProofBeforeConnected == (state = "connected") => proof
\* a proof never survives into the next handshake (epoch)
ProofIsFresh == proof => (chalSet /\ revealed /\ fresh)
NegotiatedOnlyAfterChallenge == negotiated => chalSet
AView == <<state, chalSet, revealed, hasStale, fresh, proof, negotiated, ncalls>>

\* ------------------------------------------------------------------ layer 2: wire
\* the peer's three turns; "-" = turn not reached
\* a frame of length zero is a keep-alive only once connected; during the handshake it is a malformed message whatever follows it
\* ("empty_then_X": an empty frame, then the conforming message and the rest of the protocol; "empty_stream": empty frames, several
\* per timeout period, in place of silence)
PeerStatus == {"ok", "ok_simultaneous", "nok", "not_allowed", "alive", "unknown_status", "wrong_tag", "empty_frame",
               "oversized_length", "silence", "close", "challenge_first", "ack_first", "empty_then_ok", "empty_stream"}
PeerChallenge == {"good", "good_extra_bytes", "wrong_tag", "truncated", "name_len_lies", "non_utf8_name", "oversized_length",
                  "silence", "close", "status_again", "ack_instead", "empty_frame", "empty_then_good", "empty_stream"}
PeerAck == {"right", "right_extra_bytes", "wrong_digest", "digest_of_own_challenge", "wrong_tag", "short", "silence", "close", "challenge_again",
            "empty_frame", "empty_then_right", "empty_stream"}
Conforming(s, c, a) == s \in {"ok", "ok_simultaneous"} /\ c \in {"good", "good_extra_bytes"} /\ a \in {"right", "right_extra_bytes"}
\* scripts: a deviation ends the handshake, later turns are not reached
Scripts == { <<s, "-", "-">> : s \in PeerStatus \ {"ok", "ok_simultaneous"} }
           \cup { <<s, c, "-">> : s \in {"ok", "ok_simultaneous"}, c \in PeerChallenge \ {"good", "good_extra_bytes"} }
           \cup { <<s, c, a>> : s \in {"ok", "ok_simultaneous"}, c \in {"good", "good_extra_bytes"}, a \in PeerAck }
Expect(sc) == IF Conforming(sc[1], sc[2], sc[3]) THEN "connected" ELSE "error"
\* whether the statement leaves the outcome open (extra bytes after a well-formed message are tolerated by the code)
Open(sc) == sc[2] = "good_extra_bytes" \/ sc[3] = "right_extra_bytes"

\* ------------------------------------------------------------------ message families
\* The classes above name what a received message is; each class is a set of byte strings, and every member must be handled like the class's
\* representative (the one the transitions are replayed with): same result, same state, no panic.  A status message is 's' followed by a text; the
\* five known texts are their own classes, any other valid UTF-8 text is unknown_status, any other first byte is wrong_tag.  A challenge is
\* 'N', flags(8), challenge(4), creation(4), name length(2), name: good when the name is valid UTF-8 of the stated length, good_extra_bytes when
\* bytes follow it, an error when cut short, mis-tagged or not UTF-8.  An acknowledgement is 'a' and a 16-byte digest.
Rep(c, n) == [i \in 1..n |-> c]
TOk == <<111,107>>
TOkSim == <<111,107,95,115,105,109,117,108,116,97,110,101,111,117,115>>
TNok == <<110,111,107>>
TNotAllowed == <<110,111,116,95,97,108,108,111,119,101,100>>
TAlive == <<97,108,105,118,101>>
KnownTexts == {TOk, TOkSim, TNok, TNotAllowed, TAlive}
ClassOfStatusText(t) == CASE t = TOk -> "ok" [] t = TOkSim -> "ok_simultaneous" [] t = TNok -> "nok" [] t = TNotAllowed -> "not_allowed" [] t = TAlive -> "alive" [] OTHER -> "unknown_status"
MultiByte == {<<195,169>>, <<226,130,172>>, <<240,159,152,128>>}
Utf8Texts == UNION { { Rep(97, off) \o ch \o Rep(97, L - off - Len(ch)) : off \in 0..(L - Len(ch)) } : L \in {33, 40, 64}, ch \in MultiByte }
NearMisses == UNION { { SubSeq(k, 1, Len(k) - 1), k \o <<120>>, k \o <<0>>, k \o <<32>>, <<32>> \o k, <<k[1] - 32>> \o SubSeq(k, 2, Len(k)) } : k \in KnownTexts }
UnknownTexts == (NearMisses \cup { Rep(97, n) : n \in (1..70) \cup {255, 256, 1000} } \cup Utf8Texts \cup {<<>>}) \ KnownTexts
BadUtf8 == {<<255,254>>, <<195>>, <<192,128>>, <<237,160,128>>, <<244,144,128,128>>, <<226,130>>}
StatusFamily == { [msg |-> "status", class |-> ClassOfStatusText(t), bytes |-> <<115>> \o t] : t \in KnownTexts \cup UnknownTexts }
                \cup { [msg |-> "status", class |-> "wrong_tag", bytes |-> <<g>> \o TOk] : g \in (0..255) \ {115} }
                \cup { [msg |-> "status", class |-> "non_utf8", bytes |-> <<115>> \o Rep(97, n) \o b \o Rep(97, m)] : n \in {0, 31, 32, 40}, m \in {0, 3}, b \in BadUtf8 }
                \cup { [msg |-> "status", class |-> "empty", bytes |-> <<>>] }
\* challenges and acknowledgements are built by the harness around the parameter set: name, stated length (-1: the true one), cut (-1: none), first byte, bytes appended
ChalSpec(c, name, nlen, cut, tag, extra) == [msg |-> "challenge", class |-> c, name |-> name, nlen |-> nlen, cut |-> cut, tag |-> tag, extra |-> extra]
NameTail == <<64,104>>
ChallengeFamily == { ChalSpec("good", t \o NameTail, 0 - 1, 0 - 1, 78, 0) : t \in Utf8Texts \cup { Rep(97, n) : n \in {0, 1, 253, 254, 255, 256, 1000} } }
                   \cup { ChalSpec("good_extra_bytes", Rep(97, 5) \o NameTail, 0 - 1, 0 - 1, 78, n) : n \in {1, 2, 255} }
                   \cup { ChalSpec("wrong_tag", Rep(97, 5) \o NameTail, 0 - 1, 0 - 1, g, 0) : g \in (0..255) \ {78} }
                   \cup { ChalSpec("truncated", Rep(97, 5) \o NameTail, 0 - 1, cut, 78, 0) : cut \in 1..25 }        \* the whole message is 26 bytes
                   \cup { ChalSpec("name_len_lies", Rep(97, 5) \o NameTail, n, 0 - 1, 78, 0) : n \in {8, 9, 255, 65535} }
                   \cup { ChalSpec("non_utf8_name", Rep(97, n) \o b \o NameTail, 0 - 1, 0 - 1, 78, 0) : n \in {0, 31, 32}, b \in BadUtf8 }
AckSpec(c, digest, cut, tag, extra) == [msg |-> "ack", class |-> c, digest |-> digest, cut |-> cut, tag |-> tag, extra |-> extra]
AckFamily == { AckSpec("right", "right", 0 - 1, 97, 0) } \cup { AckSpec("right_extra_bytes", "right", 0 - 1, 97, n) : n \in {1, 2, 255} }
             \cup { AckSpec("wrong_tag", "right", 0 - 1, g, 0) : g \in (0..255) \ {97} }
             \cup { AckSpec("short", "right", cut, 97, 0) : cut \in 1..16 }
             \cup { AckSpec("wrong_digest", d, 0 - 1, 97, 0) : d \in {"wrong", "flip_first_bit", "flip_last_bit", "zeros", "own_challenge"} }
Families == StatusFamily \cup ChallengeFamily \cup AckFamily
\* ------------------------------------------------------------------ layouts
U16(n) == << n \div 256, n % 256 >>
\* flags are 8 bytes big-endian; hi = first four, lo = last four
SendNameOld(flags8, name) == U16(7 + Len(name)) \o <<110>> \o U16(5) \o SubSeq(flags8, 5, 8) \o name
Complement(flags8, creation4) == U16(9) \o <<99>> \o SubSeq(flags8, 1, 4) \o creation4
ChallengeReply(ourChal4, digest16) == U16(21) \o <<114>> \o ourChal4 \o digest16
StatusMsg(text) == U16(1 + Len(text)) \o <<115>> \o text
ChallengeMsg(flags8, chal4, creation4, name) == U16(19 + Len(name)) \o <<78>> \o flags8 \o chal4 \o creation4 \o U16(Len(name)) \o name
AckMsg(digest16) == U16(17) \o <<97>> \o digest16
AndBytes(a, b) == [i \in 1..Len(a) |-> LET x == a[i]  y == b[i] IN
                     LET bit(k) == ((x \div (2 ^ k)) % 2) * ((y \div (2 ^ k)) % 2) * (2 ^ k) IN
                     bit(0) + bit(1) + bit(2) + bit(3) + bit(4) + bit(5) + bit(6) + bit(7)]
=============================================================================
