---------------------------- MODULE EtfUniverse ----------------------------
(* The bounded universe of Erlang values used by C01, C03, C10, C13 (and, through     *)
(* payloads, C06/C07/C14): every boundary named by the properties' quantifiers as a    *)
(* leaf, containers of depth <= 2 over a reduced leaf set, one level more for nesting. *)
EXTENDS Etf
CONSTANT Heavy        \* TRUE: include the 65 535 / 65 536-element boundaries (thorough tier)

A(s) == VAtom(s)
Rep(x, n) == [i \in 1..n |-> x]
Node1 == A(<<110, 64, 104>>)                       \* 'n@h'
NodeU == A(<<110, 195, 169, 64, 104>>)             \* 'né@h'
F15 == <<63, 248, 0, 0, 0, 0, 0, 0>>
Pid1 == VPid(Node1, <<0,0,0,1>>, <<0,0,0,2>>, <<0,0,0,3>>, <<>>)

Ints == { Zero, SmallInt(1), SmallInt(255), VInt(FALSE, <<0, 1>>), VInt(TRUE, <<1>>),
          VInt(FALSE, <<255,255,255,127>>), VInt(TRUE, <<0,0,0,128>>),              \* 2^31-1, -2^31
          VInt(FALSE, <<0,0,0,128>>), VInt(TRUE, <<1,0,0,128>>),                    \* 2^31, -2^31-1
          VInt(FALSE, <<255,255,255,255,255,255,255,127>>), VInt(TRUE, <<0,0,0,0,0,0,0,128>>),   \* 2^63-1, -2^63
          VInt(FALSE, <<0,0,0,0,0,0,0,128>>), VInt(TRUE, <<1,0,0,0,0,0,0,128>>),    \* 2^63, -2^63-1
          VInt(FALSE, Rep(255, 8)), VInt(FALSE, <<0,0,0,0,0,0,0,0,1>>),             \* 2^64-1, 2^64
          VInt(FALSE, <<0,0,0,0,0,0,32>>), VInt(FALSE, <<1,0,0,0,0,0,32>>),         \* 2^53, 2^53+1
          VInt(FALSE, Rep(7, 9)), VInt(FALSE, Rep(255, 255)), VInt(TRUE, Rep(1, 256)), VInt(FALSE, Rep(9, 300)) }
\* every float the FLOAT_EXT table knows a text for (decimal-boundary values and fixed pseudo-random bit patterns, see checks/tables.py)
TabledFloats == { VFloat(ft.bits) : ft \in FloatTexts }
BaseFloats == { VFloat(F15), VFloat(<<128,0,0,0,0,0,0,0>>), VFloat(<<0,0,0,0,0,0,0,0>>), VFloat(<<0,0,0,0,0,0,0,1>>),
            VFloat(<<127,239,255,255,255,255,255,255>>), VFloat(<<255,239,255,255,255,255,255,255>>),
            VFloat(<<67,64,0,0,0,0,0,0>>), VFloat(<<68,21,175,29,120,181,140,64>>), VFloat(<<0,16,0,0,0,0,0,0>>) }
Floats == BaseFloats \cup TabledFloats
ExtraFloats == TabledFloats \ BaseFloats
Atoms == { A(<<>>), A(<<97>>), A(<<111,107>>), A(<<195,169>>), A(<<226,130,172>>), A(<<240,159,152,128>>),
           A(<<195,191,97>>), A(<<195,131,194,169>>), A(<<195,130,194,181,120>>), A(Rep(97, 255)), A(Rep(97, 256)), A(Rep(98, 127) \o <<195,169>>),
           \* two-byte characters: 254 / 256 / 400 bytes but only 127 / 128 / 200 characters (lengths and tag choice go by bytes)
           A([j \in 1..254 |-> IF j % 2 = 1 THEN 195 ELSE 169]), A([j \in 1..256 |-> IF j % 2 = 1 THEN 195 ELSE 169]), A([j \in 1..400 |-> IF j % 2 = 1 THEN 195 ELSE 169]) }
          \cup (IF Heavy THEN {A(Rep(97, 65535))} ELSE {A(Rep(97, 1000))})
Bins == { VBin(<<>>), VBin(<<1,2,3>>), VBin(Rep(7, 40)), VBin(<<104,105>>), VBin(Rep(0, 300)), VBits(<<1,128>>, 1), VBits(<<254>>, 7),
          VBits(<<255,224>>, 3), VBits(<<1,2,240>>, 4), VBits(<<128>>, 1), VBits(<<192>>, 2), VBits(<<248>>, 5), VBits(<<252>>, 6) }
\* wide references: 16384 words is where a 16-bit word count times 4 leaves 16 bits; 65535 is the format's maximum
WideIds == {VRef(Node1, <<0,0,0,1>>, [i \in 1..16384 |-> <<0,0,i \div 256, i % 256>>], <<>>)}
           \cup (IF Heavy THEN {VRef(Node1, <<0,0,0,1>>, [i \in 1..65535 |-> <<0,0,i \div 256, i % 256>>], <<>>)} ELSE {})
Ids == { Pid1, VPid(NodeU, <<255,255,255,255>>, <<0,0,0,0>>, <<1,2,3,4>>, <<>>),
         VPid(Node1, <<0,0,0,1>>, <<0,0,0,2>>, <<1,2,3,4>>, <<9,8,7,6,5,4,3,2>>),
         VPort(Node1, <<0,0,0,0,0,0,0,5>>, <<0,0,0,1>>, <<>>), VPort(Node1, <<1,0,0,0,0,0,0,5>>, <<0,0,1,1>>, <<>>),
         VPort(Node1, <<0,0,0,0,255,255,255,255>>, <<255,255,255,255>>, <<0,0,0,0,0,0,0,0>>),
         VRef(Node1, <<0,0,0,2>>, <<<<0,0,0,1>>, <<0,0,0,2>>, <<0,0,0,3>>>>, <<>>), VRef(Node1, <<0,0,0,1>>, <<<<0,0,0,9>>>>, <<>>),
         VRef(Node1, <<0,0,0,1>>, <<>>, <<>>), VRef(NodeU, <<1,0,0,1>>, [i \in 1..5 |-> <<255,0,i,1>>], <<>>),
         VRef(Node1, <<0,0,0,7>>, <<<<0,0,0,1>>, <<0,0,0,2>>>>, <<255,254,253,252,251,250,249,248>>),
         \* field values beyond the widths of the pre-V4 identifiers (15-bit number, 13-bit serial, 28-bit port number, 2-bit creation, 18-bit
         \* first reference word) with a creation that still fits one byte, so that the legacy tags are admissible encodings of them
         VPid(Node1, <<255,255,255,255>>, <<255,255,255,255>>, <<0,0,0,3>>, <<>>), VPid(Node1, <<0,0,128,0>>, <<0,0,32,0>>, <<0,0,0,255>>, <<>>),
         VPid(Node1, <<0,0,128,1>>, <<0,0,0,2>>, <<0,0,0,3>>, <<>>),
         VPort(Node1, <<0,0,0,0,16,0,0,0>>, <<0,0,0,4>>, <<>>), VPort(Node1, <<0,0,0,0,255,255,255,255>>, <<0,0,0,255>>, <<>>),
         VRef(Node1, <<0,0,0,255>>, <<<<255,255,255,255>>>>, <<>>), VRef(Node1, <<0,0,0,4>>, <<<<0,4,0,0>>, <<255,255,255,255>>, <<0,0,0,1>>>>, <<>>) }
       \cup WideIds
Exports == { VExport(A(<<109>>), A(<<102>>), 3), VExport(A(<<195,169>>), A(<<>>), 255), VExport(A(Rep(97, 256)), A(<<102>>), 0) }
\* every byte value in turn: as a small integer, as the low / a middle / the top digit of integers around the 32- and 64-bit borders and of a
\* nine-digit one, as a one-byte binary, and every ASCII character as a one-letter atom (what a value is encoded as, or decoded to, must not
\* depend on which byte values it happens to contain)
SweepInts == UNION { { VInt(FALSE, TrimHi(<<x>>)), VInt(TRUE, TrimHi(<<(x + 1) % 256, (x + 1) \div 256>>)), VInt(FALSE, TrimHi(<<1, 0, 0, x>>)), VInt(TRUE, TrimHi(<<1, x, 0, 1>>)),
                       VInt(FALSE, TrimHi(<<1, 0, 0, 0, 0, 0, 0, x>>)), VInt(FALSE, <<x, 0, 0, 0, 0, 0, 0, 0, 1>>) } : x \in 0..255 }
\* the atoms the library keeps pre-built (types.rs COMMON_ATOMS) and a few more that mean something in the protocol: each must stay itself
WellKnownAtoms == { A(<<111,107>>), A(<<101,114,114,111,114>>), A(<<116,114,117,101>>), A(<<102,97,108,115,101>>), A(<<110,105,108>>), A(<<117,110,100,101,102,105,110,101,100>>), A(<<110,111,114,109,97,108>>), A(<<115,104,117,116,100,111,119,110>>), A(<<105,110,102,105,110,105,116,121>>), A(<<98,97,100,97,114,103>>), A(<<98,97,100,97,114,105,116,104>>), A(<<98,97,100,109,97,116,99,104>>), A(<<110,111,112,114,111,99>>), A(<<116,105,109,101,111,117,116>>), A(<<110,111,99,111,110,110,101,99,116,105,111,110>>), A(<<114,101,120>>), A(<<69,88,73,84>>), A(<<68,79,87,78>>) }
SweepLeaves == SweepInts \cup WellKnownAtoms \cup { VBin(<<x>>) : x \in 0..255 } \cup { A(<<x>>) : x \in 33..126 }
Leaves == Ints \cup Floats \cup Atoms \cup Bins \cup Ids \cup Exports \cup {VNil} \cup SweepLeaves

\* reduced leaf set for building containers
Small == { Zero, SmallInt(1), VInt(FALSE, <<0,1>>), VInt(FALSE, <<0,0,0,128>>), A(<<111,107>>), A(<<195,169>>), VNil, VBin(<<1>>), VFloat(F15),
           Pid1, VRef(Node1, <<0,0,0,7>>, <<<<0,0,0,1>>, <<0,0,0,2>>>>, <<255,254,253,252,251,250,249,248>>) }
Tiny == { SmallInt(1), A(<<111,107>>), VNil }
Seqs(S, n) == UNION { [1..m -> S] : m \in 0..n }
MkFun(fv) == VFun(2, [i \in 1..16 |-> i], <<0,0,0,1>>, A(<<109>>), SmallInt(3), VInt(FALSE, <<57,48,1>>), Pid1, fv)
Maps == { VMap(CanonMap(kv)) : kv \in {
            <<>>, << <<SmallInt(1), VNil>> >>,
            << <<SmallInt(1), A(<<111,107>>)>>, <<A(<<111,107>>), VBin(<<1>>)>> >>,
            << <<VFloat(F15), Zero>>, <<SmallInt(1), Zero>>, <<VBin(<<1>>), VTuple(<<>>)>> >>,
            << <<VTuple(<<SmallInt(1)>>), VNil>>, <<VList(<<SmallInt(1)>>, VNil), VNil>>, <<Pid1, A(<<111,107>>)>> >> } }
\* maps whose keys are distinct in Erlang but numerically equal (C03)
NumKeyMaps == { VMap(CanonMap(<< <<SmallInt(1), A(<<97>>)>>, <<VFloat(<<63,240,0,0,0,0,0,0>>), A(<<98>>)>> >>)),
                VMap(CanonMap(<< <<Zero, A(<<97>>)>>, <<VFloat(<<0,0,0,0,0,0,0,0>>), A(<<98>>)>>, <<VFloat(<<128,0,0,0,0,0,0,0>>), A(<<99>>)>> >>)) }
\* maps whose keys are different numbers that a comparison through floating point would take for equal (an integer next to the float it
\* rounds to): both entries must survive
NearKeyMaps == { VMap(CanonMap(<< <<VInt(FALSE, <<1,0,0,0,0,0,32>>), A(<<97>>)>>, <<VFloat(<<67,64,0,0,0,0,0,0>>), A(<<98>>)>> >>)),
                 VMap(CanonMap(<< <<VInt(TRUE, <<1,0,0,0,0,0,32>>), A(<<97>>)>>, <<VFloat(<<195,64,0,0,0,0,0,0>>), A(<<98>>)>> >>)),
                 VMap(CanonMap(<< <<VInt(FALSE, <<2,0,0,0,0,0,32>>), A(<<97>>)>>, <<VFloat(<<67,64,0,0,0,0,0,0>>), A(<<98>>)>> >>)),
                 VMap(CanonMap(<< <<VInt(TRUE, <<2,0,0,0,0,0,32>>), A(<<97>>)>>, <<VFloat(<<195,64,0,0,0,0,0,0>>), A(<<98>>)>> >>)),
                 VMap(CanonMap(<< <<VInt(FALSE, <<1,0,0,0,0,0,0,128>>), A(<<97>>)>>, <<VFloat(<<67,224,0,0,0,0,0,0>>), A(<<98>>)>> >>)),
                 VMap(CanonMap(<< <<VInt(TRUE, <<1,0,0,0,0,0,0,128>>), A(<<97>>)>>, <<VFloat(<<195,224,0,0,0,0,0,0>>), A(<<98>>)>> >>)),
                 VMap(CanonMap(<< <<VInt(FALSE, <<255,255,255,255,255,255,255,255>>), A(<<97>>)>>, <<VFloat(<<67,240,0,0,0,0,0,0>>), A(<<98>>)>> >>)),
                 VMap(CanonMap(<< <<VInt(TRUE, <<255,255,255,255,255,255,255,255>>), A(<<97>>)>>, <<VFloat(<<195,240,0,0,0,0,0,0>>), A(<<98>>)>> >>)),
                 VMap(CanonMap(<< <<VInt(FALSE, <<1,0,16,99,45,94,199,107,5>>), A(<<97>>)>>, <<VFloat(<<68,21,175,29,120,181,140,64>>), A(<<98>>)>> >>)),
                 VMap(CanonMap(<< <<VInt(TRUE, <<1,0,16,99,45,94,199,107,5>>), A(<<97>>)>>, <<VFloat(<<196,21,175,29,120,181,140,64>>), A(<<98>>)>> >>)),
                 VMap(CanonMap(<< <<VInt(FALSE, <<1,0,0,128>>), A(<<97>>)>>, <<VFloat(<<65,224,0,0,0,0,0,0>>), A(<<98>>)>> >>)),
                 VMap(CanonMap(<< <<VInt(TRUE, <<1,0,0,128>>), A(<<97>>)>>, <<VFloat(<<193,224,0,0,0,0,0,0>>), A(<<98>>)>> >>)) }
\* atoms that look alike: the same length, different in one byte only, at every position (short and mid-sized names) or at the edges and in the middle
\* (long ones) -- side by side in one term, and, through the order in which vectors are decoded, one after the other on one thread
AtomWith(L, p, c) == A([k \in 1..L |-> IF k = p THEN c ELSE 97 + (k % 7)])
LookAlikePos(L) == IF L <= 24 THEN 1..L ELSE IF L <= 40 THEN {1, 8, 9, 10, L \div 2, L - 9, L - 8, L - 7, L} ELSE {9, L \div 2, L - 8}
AtomLookAlikes == UNION { UNION { { VTuple(<<AtomWith(L, p, 120), AtomWith(L, p, 121)>>), VMap(CanonMap(<< <<AtomWith(L, p, 120), SmallInt(1)>>, <<AtomWith(L, p, 121), SmallInt(2)>> >>)) }
                          : p \in LookAlikePos(L) } : L \in {3, 16, 17, 24, 40, 255} }
D1 == Leaves \cup AtomLookAlikes
      \cup { VTuple(es) : es \in Seqs(Small, 2) } \cup { VTuple([i \in 1..n |-> SmallInt(i % 256)]) : n \in {255, 256} }
      \cup { VList(es, t) : es \in (Seqs(Small, 2) \ {<<>>}), t \in {VNil, SmallInt(1), A(<<111,107>>), VBin(<<1>>)} }
      \cup { VList([i \in 1..n |-> SmallInt(i % 256)], VNil) : n \in (IF Heavy THEN {300, 65535, 65536} ELSE {300}) }
      \cup { VList([i \in 1..3 |-> VInt(FALSE, <<i, 1>>)], VNil), VList(Rep(SmallInt(97), 30), VNil), VList(Rep(SmallInt(1), 20), VNil),
              VTuple(<<A(<<111,107>>), VBin(Rep(7, 40))>>) }
      \cup Maps \cup NumKeyMaps \cup NearKeyMaps
      \cup { MkFun(fv) : fv \in Seqs(Tiny, 2) }
      \cup { VFun(1, Rep(0, 16), <<0,0,0,0>>, A(<<109>>), VInt(FALSE, <<255,255,255,127>>), VInt(FALSE, <<0,0,0,128>>), Pid1, <<>>) }   \* old_uniq = 2^31
      \cup { VFun(0, Rep(255, 16), <<255,255,255,255>>, A(<<195,169>>), VInt(FALSE, <<255,255,255,255>>), Zero,
                  VPid(Node1, <<0,0,0,1>>, <<0,0,0,2>>, <<1,2,3,4>>, <<9,8,7,6,5,4,3,2>>), <<VTuple(<<Pid1>>)>>) }
Containers1 == { x \in D1 : x.k \in {"tuple", "list", "map", "fun"} /\ Len(Children(x)) <= 4 }
D2 == D1
      \cup { VTuple(<<a, b>>) : a \in Containers1, b \in Tiny }
      \cup { VList(<<a>>, b) : a \in Containers1, b \in {VNil, SmallInt(1)} }
      \cup { VMap(CanonMap(<< <<a, b>>, <<b, a>> >>)) : a \in Containers1, b \in {SmallInt(1)} }
      \cup { MkFun(<<a>>) : a \in Containers1 }
      \cup { VTuple(<<l>>) : l \in Leaves } \cup { VList(<<l>>, VNil) : l \in Leaves \ (WideIds \cup ExtraFloats \cup SweepLeaves) }
      \cup { VMap(<< <<l, l>> >>) : l \in Leaves \ (WideIds \cup ExtraFloats \cup SweepLeaves) }
\* ---- C10: identifiers in plain and node-local form, in every context that can contain them
Hashes == { <<9,8,7,6,5,4,3,2>>, <<0,0,0,0,0,0,0,0>>, <<255,255,255,255,255,255,255,255>> }
IdPlain == { Pid1, VPid(NodeU, <<255,255,255,255>>, <<0,0,0,0>>, <<1,2,3,4>>, <<>>), VPid(A(Rep(97, 256)), <<0,0,0,1>>, <<0,0,0,2>>, <<0,0,0,3>>, <<>>),
             VPort(Node1, <<0,0,0,0,0,0,0,5>>, <<0,0,0,1>>, <<>>), VPort(NodeU, <<255,255,255,255,255,255,255,255>>, <<0,0,1,1>>, <<>>),
             VRef(Node1, <<0,0,0,2>>, <<<<0,0,0,1>>>>, <<>>), VRef(Node1, <<0,0,0,2>>, <<<<0,0,0,1>>, <<0,0,0,2>>, <<0,0,0,3>>>>, <<>>),
             VRef(NodeU, <<1,0,0,1>>, [i \in 1..5 |-> <<255,0,i,1>>], <<>>) }
IdLocal == { [i EXCEPT !.loc = h] : i \in IdPlain, h \in Hashes }
InContexts(i) == { i, VTuple(<<i>>), VTuple(<<SmallInt(1), i, A(<<111,107>>)>>), VList(<<i>>, VNil), VList(<<SmallInt(1), i>>, VNil),
                   VList(<<SmallInt(1)>>, i), VMap(<< <<i, SmallInt(1)>> >>), VMap(<< <<A(<<111,107>>), i>> >>), VMap(<< <<i, i>> >>),
                   MkFun(<<i>>), MkFun(<<SmallInt(1), VTuple(<<i>>)>>),
                   VTuple(<<VList(<<VMap(<< <<A(<<107>>), i>> >>)>>, VNil)>>), VList(<<VTuple(<<i, i>>)>>, i) }
                 \cup (IF i.k = "pid" THEN { VFun(2, [j \in 1..16 |-> j], <<0,0,0,1>>, A(<<109>>), SmallInt(3), SmallInt(4), i, <<i>>) } ELSE {})
\* every byte value in every numeric field of an identifier (and every printable character in its node name), plain and node-local:
\* what an identifier is re-emitted as must not depend on the values it happens to carry
NodeWith(c) == A(<<110, c, 64, 104>>)
IdSweep == UNION { { VPid(Node1, <<0,0,0,x>>, <<0,0,0,2>>, <<0,0,0,3>>, <<>>), VPid(Node1, <<0,0,0,1>>, <<0,0,x,0>>, <<0,0,0,3>>, <<>>), VPid(Node1, <<0,0,0,1>>, <<0,0,0,2>>, <<x,0,0,1>>, <<>>),
                     VPort(Node1, <<0,0,0,0,0,x,0,5>>, <<0,0,0,1>>, <<>>), VRef(Node1, <<0,0,0,2>>, <<<<0,0,0,1>>, <<0,x,0,2>>>>, <<>>) } : x \in 0..255 }
           \cup { VPid(NodeWith(c), <<0,0,0,1>>, <<0,0,0,2>>, <<0,0,0,3>>, <<>>) : c \in 33..126 }
\* ... and every byte value at every position of the opaque hash of the node-local form (the hash is the peer's: no byte of it means anything here)
HashWith(p, x) == [k \in 1..8 |-> IF k = p THEN x ELSE 8 - k + 2]
HashSweep == UNION { { [Pid1 EXCEPT !.loc = HashWith(p, x)] : p \in 1..8 }
                     \cup { [VPort(Node1, <<0,0,0,0,0,0,0,5>>, <<0,0,0,1>>, <<>>) EXCEPT !.loc = HashWith(p, x)] : p \in {1, 2, 8} }
                     \cup { [VRef(Node1, <<0,0,0,2>>, <<<<0,0,0,1>>, <<0,0,0,2>>>>, <<>>) EXCEPT !.loc = HashWith(p, x)] : p \in {1, 2, 8} } : x \in 0..255 }
IdSweepAll == IdSweep \cup { [i EXCEPT !.loc = <<9,8,7,6,5,4,3,2>>] : i \in IdSweep } \cup HashSweep
Twin(i) == IF i.loc = <<>> THEN [i EXCEPT !.loc = <<9,8,7,6,5,4,3,2>>] ELSE [i EXCEPT !.loc = <<>>]
OtherHash(h) == [k \in 1..Len(h) |-> IF k = Len(h) THEN (h[k] + 1) % 256 ELSE h[k]]
Twins(i) == IF i.loc = <<>> THEN {Twin(i)} ELSE {Twin(i), [i EXCEPT !.loc = OtherHash(i.loc)]}
\* an identifier next to its twin (the same identifier in another form, == to it): what is written for one must not depend on its neighbour
OkA == A(<<111,107>>)
TwinNeighbours == UNION { UNION { { VList(<<i, t>>, VNil), VList(<<t, i>>, VNil), VList(<<VTuple(<<OkA, i>>), VTuple(<<OkA, t>>)>>, VNil), VTuple(<<i, t>>), VList(<<i, t, i>>, VNil),
                                    VMap(<< <<SmallInt(1), i>>, <<SmallInt(2), t>> >>) } : t \in Twins(i) } : i \in IdPlain \cup IdLocal }
IdUniverse == UNION { InContexts(i) : i \in IdPlain \cup IdLocal } \cup IdSweepAll \cup { VTuple(<<SmallInt(1), i>>) : i \in IdSweepAll } \cup TwinNeighbours
\* node-local form wrapping the encoding the peer happened to use for the identifier (legacy / 32-bit tags):
\* records [v |-> value, enc |-> bytes]; re-encoding must give these bytes back
WrapCtx(b) == { <<131>> \o b, <<131, 104, 2, 97, 1>> \o b, <<131, 108, 0, 0, 0, 1, 97, 1>> \o b, <<131, 116, 0, 0, 0, 1>> \o b \o <<106>>, <<131, 116, 0, 0, 0, 1, 106>> \o b }
CtxVal(k, v) == CASE k = 1 -> v [] k = 2 -> VTuple(<<SmallInt(1), v>>) [] k = 3 -> VList(<<SmallInt(1)>>, v) [] k = 4 -> VMap(<< <<v, VNil>> >>) [] k = 5 -> VMap(<< <<VNil, v>> >>)
CtxBytes(k, b) == CASE k = 1 -> <<131>> \o b [] k = 2 -> <<131, 104, 2, 97, 1>> \o b [] k = 3 -> <<131, 108, 0, 0, 0, 1, 97, 1>> \o b
                    [] k = 4 -> <<131, 116, 0, 0, 0, 1>> \o b \o <<106>> [] k = 5 -> <<131, 116, 0, 0, 0, 1, 106>> \o b
LocH == <<9,8,7,6,5,4,3,2>>
LocalAltVectors == UNION { { [v |-> CtxVal(k, [i EXCEPT !.loc = LocH]), enc |-> CtxBytes(k, <<121>> \o LocH \o a[2]), alts |-> <<>>, why |-> "LOCAL_EXT around " \o a[1]] :
                               a \in Alts(i), k \in 1..5 } : i \in IdPlain }
\* the same logical identifier in its other form (plain <-> local with the first hash)
\* every other form of the same logical identifier: plain <-> local, and local <-> local with another opaque hash

\* a different logical identifier that agrees with i in all fields but one (must be told apart by ==, cmp, sets and as a map key)
Bump(w) == [k \in 1..Len(w) |-> IF k = Len(w) THEN (w[k] + 1) % 256 ELSE w[k]]
Variants(i) == CASE i.k = "pid" -> {[i EXCEPT !.creation = Bump(@)], [i EXCEPT !.serial = Bump(@)], [i EXCEPT !.id = Bump(@)]}
                 [] i.k = "port" -> {[i EXCEPT !.creation = Bump(@)], [i EXCEPT !.id = Bump(@)]}
                 [] i.k = "ref" -> {[i EXCEPT !.creation = Bump(@)]} \cup (IF Len(i.words) > 0 THEN {[i EXCEPT !.words[Len(i.words)] = Bump(@)]} ELSE {})
                 [] OTHER -> {}
\* values the format cannot express (C01: encoding must report an error, not truncate a length)
Unencodable == { A(Rep(97, 65536)), VTuple(<<SmallInt(1), A(Rep(97, 65536))>>),
                 VRef(Node1, <<0,0,0,1>>, [i \in 1..65536 |-> <<0,0,0,1>>], <<>>),
                 VPid(A(Rep(98, 70000)), <<0,0,0,1>>, <<0,0,0,2>>, <<0,0,0,3>>, <<>>) }
=============================================================================
